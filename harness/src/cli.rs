//! Running the real binary (guard off) on a directory tree written for the case.
use crate::imp::{self, Diag, LBlock, Outcome};
use std::io::Write;
use std::path::PathBuf;
use std::process::{Command, Stdio};
use std::sync::atomic::{AtomicUsize, Ordering};
use std::time::{Duration, Instant};

static COUNTER: AtomicUsize = AtomicUsize::new(0);

#[derive(Clone, Debug, Default)]
pub struct CliRun {
    /// (root-relative path, text), created in this order
    pub files: Vec<(String, String)>,
    pub args: Vec<String>,
    /// diff on stdin; None = terminal mode (BLOCKWATCH_TERMINAL_MODE=1, empty stdin)
    pub stdin: Option<String>,
    /// directory (relative to the root) to start from
    pub cwd: String,
    pub env: Vec<(String, String)>,
    /// pin to the first n cpus with taskset (0 = no pinning)
    pub cpus: usize,
    /// run outside any repository: no .git/ at the root, scratch under the system temp dir
    /// (created and removed within this call)
    pub no_root: bool,
}

#[derive(Clone, Debug)]
pub struct CliOut {
    pub code: Option<i32>,
    pub signal: bool,
    pub timed_out: bool,
    pub stdout: String,
    pub stderr: String,
    pub root: String,
}

pub fn cli_path() -> String {
    std::env::var("BWV_CLI").unwrap_or_else(|_| "/verif/.cache/target-cli/debug/blockwatch".to_string())
}

pub fn scratch_dir() -> PathBuf {
    let base = std::env::var("BWV_SCRATCH").unwrap_or_else(|_| "/verif/.cache/scratch".to_string());
    let n = COUNTER.fetch_add(1, Ordering::SeqCst);
    PathBuf::from(base).join(format!("c{}_{}", std::process::id(), n))
}

pub fn run(r: &CliRun) -> CliOut {
    let root = if r.no_root {
        std::env::temp_dir().join(format!("bwv_noroot_{}_{}", std::process::id(), COUNTER.fetch_add(1, Ordering::SeqCst)))
    } else {
        scratch_dir()
    };
    let _ = std::fs::remove_dir_all(&root);
    if r.no_root {
        std::fs::create_dir_all(&root).expect("scratch dir");
    } else {
        std::fs::create_dir_all(root.join(".git")).expect("scratch dir");
    }
    for (p, t) in &r.files {
        let path = root.join(p);
        if let Some(parent) = path.parent() {
            std::fs::create_dir_all(parent).expect("mkdir");
        }
        std::fs::write(&path, t).expect("write file");
    }
    let cwd = if r.cwd.is_empty() { root.clone() } else { root.join(&r.cwd) };
    std::fs::create_dir_all(&cwd).ok();
    let mut cmd = if r.cpus > 0 {
        let mut c = Command::new("taskset");
        c.arg("-c").arg(format!("0-{}", r.cpus - 1)).arg(cli_path());
        c
    } else {
        Command::new(cli_path())
    };
    cmd.args(&r.args).current_dir(&cwd).stdin(Stdio::piped()).stdout(Stdio::piped()).stderr(Stdio::piped());
    cmd.env("RUST_BACKTRACE", "0");
    cmd.env_remove("BLOCKWATCH_TERMINAL_MODE");
    cmd.env_remove("BLOCKWATCH_LUA_MODE");
    cmd.env_remove("BLOCKWATCH_AI_API_KEY");
    cmd.env_remove("BLOCKWATCH_AI_API_URL");
    cmd.env_remove("BLOCKWATCH_AI_MODEL");
    if r.stdin.is_none() {
        cmd.env("BLOCKWATCH_TERMINAL_MODE", "1");
    }
    for (k, v) in &r.env {
        cmd.env(k, v);
    }
    let mut child = cmd.spawn().expect("spawn blockwatch");
    {
        let mut si = child.stdin.take().unwrap();
        if let Some(d) = &r.stdin {
            let _ = si.write_all(d.as_bytes());
        }
    }
    let mut so = child.stdout.take().unwrap();
    let mut se = child.stderr.take().unwrap();
    let t1 = std::thread::spawn(move || {
        let mut s = Vec::new();
        let _ = std::io::Read::read_to_end(&mut so, &mut s);
        String::from_utf8_lossy(&s).to_string()
    });
    let t2 = std::thread::spawn(move || {
        let mut s = Vec::new();
        let _ = std::io::Read::read_to_end(&mut se, &mut s);
        String::from_utf8_lossy(&s).to_string()
    });
    let start = Instant::now();
    let limit = Duration::from_secs(std::env::var("BWV_CLI_TIMEOUT").ok().and_then(|s| s.parse().ok()).unwrap_or(20));
    let mut timed_out = false;
    let status = loop {
        match child.try_wait() {
            Ok(Some(st)) => break Some(st),
            Ok(None) => {
                if start.elapsed() > limit {
                    let _ = child.kill();
                    timed_out = true;
                    break child.wait().ok();
                }
                std::thread::sleep(Duration::from_millis(2));
            }
            Err(_) => break None,
        }
    };
    let stdout = t1.join().unwrap_or_default();
    let stderr = t2.join().unwrap_or_default();
    let _ = std::fs::remove_dir_all(&root);
    let code = status.and_then(|s| s.code());
    CliOut { code, signal: status.map(|s| s.code().is_none()).unwrap_or(true), timed_out, stdout, stderr, root: root.display().to_string() }
}

fn jstr(v: &serde_json::Value) -> String {
    match v {
        serde_json::Value::String(s) => s.clone(),
        o => o.to_string(),
    }
}

/// structural facts about the CLI's output, judged by the harness
#[derive(Clone, Debug, Default)]
pub struct Shape {
    pub stderr_is_one_json_object: bool,
    pub every_diag_wellformed: bool,
    pub silent_when_clean: bool,
    pub stdout_empty: bool,
}

/// interpret a validation run of the CLI: diagnostics from the JSON on stderr, exit status
pub fn interpret_run(o: &CliOut) -> (Outcome<(Vec<Diag>, u32)>, Shape) {
    let mut shape = Shape { stdout_empty: o.stdout.is_empty(), ..Default::default() };
    if o.timed_out {
        return (Outcome::Panic("timeout".into()), shape);
    }
    let code = match o.code {
        Some(c) => c,
        None => return (Outcome::Panic(format!("killed by a signal; stderr: {}", o.stderr)), shape),
    };
    if code != 0 && code != 1 {
        return (Outcome::Panic(format!("exit status {}; stderr: {}", code, o.stderr)), shape);
    }
    if o.stderr.trim().is_empty() {
        shape.silent_when_clean = true;
        shape.stderr_is_one_json_object = true;
        shape.every_diag_wellformed = true;
        return (Outcome::Ok((vec![], code as u32)), shape);
    }
    if o.stderr.contains("panicked at") {
        return (Outcome::Panic(o.stderr.clone()), shape);
    }
    match serde_json::from_str::<serde_json::Value>(&o.stderr) {
        Ok(serde_json::Value::Object(m)) => {
            shape.stderr_is_one_json_object = true;
            shape.every_diag_wellformed = true;
            shape.silent_when_clean = true;
            let mut ds = Vec::new();
            for (file, arr) in &m {
                let Some(arr) = arr.as_array() else {
                    shape.every_diag_wellformed = false;
                    continue;
                };
                if arr.is_empty() {
                    shape.every_diag_wellformed = false;
                }
                for j in arr {
                    let ok = j["range"]["start"]["line"].is_u64() && j["range"]["start"]["character"].is_u64()
                        && j["range"]["end"]["line"].is_u64() && j["range"]["end"]["character"].is_u64()
                        && j["code"].is_string() && j["message"].is_string()
                        && j["severity"].as_u64().map(|s| (1..=4).contains(&s)).unwrap_or(false);
                    if !ok {
                        shape.every_diag_wellformed = false;
                    }
                    let codes = jstr(&j["code"]);
                    ds.push(Diag {
                        file: file.clone(),
                        sl: j["range"]["start"]["line"].as_u64().unwrap_or(0) as usize,
                        sc: j["range"]["start"]["character"].as_u64().unwrap_or(0) as usize,
                        el: j["range"]["end"]["line"].as_u64().unwrap_or(0) as usize,
                        ec: j["range"]["end"]["character"].as_u64().unwrap_or(0) as usize,
                        data: imp::canon_data_pub(&codes, j.get("data")),
                        code: codes,
                        sev: j["severity"].as_u64().unwrap_or(0),
                        message: jstr(&j["message"]),
                    });
                }
            }
            ds.sort();
            (Outcome::Ok((ds, code as u32)), shape)
        }
        _ => {
            // an error message ("Error: ...")
            if code == 1 && o.stderr.starts_with("Error:") {
                (Outcome::Err(imp::classify_error(&o.stderr), o.stderr.clone()), shape)
            } else if code == 0 {
                (Outcome::Panic(format!("exit 0 with unparsable stderr: {}", o.stderr)), shape)
            } else {
                (Outcome::Err(imp::E_UNKNOWN, o.stderr.clone()), shape)
            }
        }
    }
}

/// interpret `blockwatch list`
pub fn interpret_list(o: &CliOut) -> Outcome<Vec<LBlock>> {
    if o.timed_out {
        return Outcome::Panic("timeout".into());
    }
    match o.code {
        Some(0) => match serde_json::from_str::<serde_json::Value>(&o.stdout) {
            Ok(serde_json::Value::Object(m)) => {
                let mut out = Vec::new();
                for (file, arr) in &m {
                    for b in arr.as_array().cloned().unwrap_or_default() {
                        let mut attrs: Vec<(String, String)> = b["attributes"].as_object().map(|o| o.iter().map(|(k, v)| (k.clone(), jstr(v))).collect()).unwrap_or_default();
                        attrs.sort();
                        out.push(LBlock {
                            file: file.clone(),
                            line: b["line"].as_u64().unwrap_or(0) as usize,
                            col: b["column"].as_u64().unwrap_or(0) as usize,
                            name: jstr(&b["name"]),
                            modified: b["is_content_modified"].as_bool().unwrap_or(false),
                            attrs,
                        });
                    }
                }
                // stable, by file only: the order of a file's blocks is the implementation's (C03: source order)
            out.sort_by(|a, b| a.file.cmp(&b.file));
                Outcome::Ok(out)
            }
            _ => Outcome::Panic(format!("list: stdout is not one JSON object: {}", o.stdout)),
        },
        Some(1) if o.stderr.starts_with("Error:") => Outcome::Err(imp::classify_error(&o.stderr), o.stderr.clone()),
        Some(c) => Outcome::Panic(format!("exit status {c}; stderr {}", o.stderr)),
        None => Outcome::Panic("killed by a signal".into()),
    }
}

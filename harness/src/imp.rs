//! Running the implementation in-process through blockwatch's public API.
use blockwatch::blocks::{self, FileSystem, PathCheckerImpl};
use blockwatch::validators;
use blockwatch::{diff_parser, language_parsers, verif_hooks};
use globset::{Glob, GlobSet, GlobSetBuilder};
use std::collections::{BTreeMap, HashMap, HashSet};
use std::ffi::OsString;
use std::panic::{AssertUnwindSafe, catch_unwind};
use std::path::{Path, PathBuf};
use std::sync::Arc;

#[derive(Clone, Debug, Default)]
pub struct RunSpec {
    /// (root-relative path, text) in walk order
    pub files: Vec<(String, String)>,
    pub diff: Option<String>,
    /// positional globs; terminal mode without globs is `["**"]`
    pub globs: Vec<String>,
    pub ignores: Vec<String>,
    pub ext: Vec<(String, String)>,
    pub disabled: Vec<String>,
    pub enabled: Vec<String>,
}

#[derive(Clone, Debug, PartialEq, Eq, PartialOrd, Ord)]
pub struct Diag {
    pub file: String,
    pub sl: usize,
    pub sc: usize,
    pub el: usize,
    pub ec: usize,
    pub code: String,
    pub sev: u64,
    pub data: Vec<String>,
    pub message: String,
}

#[derive(Clone, Debug, PartialEq, Eq, PartialOrd, Ord)]
pub struct LBlock {
    pub file: String,
    pub line: usize,
    pub col: usize,
    pub name: String,
    pub modified: bool,
    pub attrs: Vec<(String, String)>,
}

#[derive(Clone, Debug)]
pub enum Outcome<T> {
    Ok(T),
    Err(u32, String),
    Panic(String),
}

#[derive(Clone, Debug)]
pub struct Comment {
    pub group: usize,
    pub lo: usize,
    pub hi: usize,
    pub ps: (usize, usize),
    pub pe: (usize, usize),
    pub text: String,
}

pub type Changes = BTreeMap<String, Vec<(usize, Option<Vec<(usize, usize)>>)>>;

#[derive(Clone, Debug)]
pub struct ImplOut {
    pub changes: Outcome<Changes>,
    pub list: Outcome<Vec<LBlock>>,
    pub run: Outcome<(Vec<Diag>, u32)>,
}

pub const E_PARSE: u32 = 1;
pub const E_DIFF: u32 = 17;
pub const E_READ: u32 = 18;
pub const E_UNKNOWN: u32 = 98;

pub fn classify_error(msg: &str) -> u32 {
    let table: &[(&str, u32)] = &[
        ("Failed to parse \"severity\"", 10),
        ("Failed to parse file", 1),
        ("keep-sorted expected values", 2),
        ("keep-sorted-format has an unsupported value", 3),
        ("Invalid keep-sorted-pattern", 4),
        ("is not a valid number", 5),
        ("Invalid keep-unique regex", 6),
        ("line-pattern expected a valid regular expression", 7),
        ("line-count expected a comparator", 8),
        ("Invalid \"affects\" attribute", 9),
        ("check-lua requires a non-empty script path", 11),
        ("check-lua-pattern is not a valid regex", 13),
        ("check-lua script error", 12),
        ("check-ai requires a non-empty condition", 14),
        ("check-ai-pattern is not a valid regex", 16),
        ("check-ai API error", 15),
        ("Failed to read file", 18),
        ("Failed to run validation", 97),
    ];
    for (needle, cls) in table {
        if msg.contains(needle) {
            return *cls;
        }
    }
    E_UNKNOWN
}

pub struct MemFs {
    pub files: Vec<(String, String)>,
}

impl FileSystem for MemFs {
    fn read_to_string(&self, path: &Path) -> anyhow::Result<String> {
        let p = path.display().to_string();
        self.files
            .iter()
            .find(|(n, _)| *n == p)
            .map(|(_, t)| t.clone())
            .ok_or_else(|| anyhow::anyhow!("Failed to read file \"{}\"", p))
    }
    fn walk(&self) -> impl Iterator<Item = anyhow::Result<PathBuf>> {
        self.files.iter().map(|(n, _)| Ok(PathBuf::from(n)))
    }
}

pub fn globset(globs: &[String]) -> anyhow::Result<GlobSet> {
    let mut b = GlobSetBuilder::new();
    for g in globs {
        b.add(Glob::new(g)?);
    }
    Ok(b.build()?)
}

fn panic_msg(e: Box<dyn std::any::Any + Send>) -> String {
    if let Some(s) = e.downcast_ref::<&str>() {
        s.to_string()
    } else if let Some(s) = e.downcast_ref::<String>() {
        s.clone()
    } else {
        "panic".to_string()
    }
}

pub fn quiet_panics() {
    if std::env::var("BWV_LOUD").is_ok() {
        return;
    }
    std::panic::set_hook(Box::new(|_| {}));
}

/// Comments the blocks parser consumed for one file, by the observation hook.
pub fn comments_of(path: &str, text: &str, ext: &[(String, String)]) -> Outcome<Vec<Comment>> {
    let _ = verif_hooks::take();
    let fs = MemFs {
        files: vec![(path.to_string(), text.to_string())],
    };
    let r = catch_unwind(AssertUnwindSafe(|| -> anyhow::Result<()> {
        let checker = PathCheckerImpl::new(globset(&["**".to_string()])?, globset(&[])?);
        let extm: HashMap<OsString, OsString> = ext
            .iter()
            .map(|(k, v)| (OsString::from(k), OsString::from(v)))
            .collect();
        blocks::parse_blocks(
            HashMap::new(),
            true,
            &fs,
            &checker,
            language_parsers::language_parsers()?,
            extm,
        )?;
        Ok(())
    }));
    let rec: Vec<Comment> = verif_hooks::take()
        .into_iter()
        .map(|c| Comment {
            group: c.group,
            lo: c.start_byte,
            hi: c.end_byte,
            ps: (c.start_line, c.start_character),
            pe: (c.end_line, c.end_character),
            text: c.text,
        })
        .collect();
    match r {
        Ok(_) => Outcome::Ok(rec),
        Err(e) => Outcome::Panic(panic_msg(e)),
    }
}

fn json_str(v: &serde_json::Value) -> String {
    match v {
        serde_json::Value::String(s) => s.clone(),
        other => other.to_string(),
    }
}

pub fn canon_data_pub(code: &str, data: Option<&serde_json::Value>) -> Vec<String> {
    canon_data(code, data)
}

fn canon_data(code: &str, data: Option<&serde_json::Value>) -> Vec<String> {
    let keys: &[&str] = match code {
        "keep-sorted" => &["order_by"],
        "line-pattern" => &["pattern"],
        "line-count" => &["actual", "op", "expected"],
        "affects" => &["affected_block_file_path", "affected_block_name"],
        "check-lua" => &["script", "lua_error"],
        "check-ai" => &["condition", "ai_message"],
        _ => &[],
    };
    let mut out = Vec::new();
    if let Some(d) = data {
        for k in keys {
            out.push(d.get(*k).map(json_str).unwrap_or_else(|| "<missing>".to_string()));
        }
        if keys.is_empty() && !d.is_null() {
            out.push(d.to_string());
        }
    } else if !keys.is_empty() {
        out.push("<nodata>".to_string());
    }
    out
}

pub fn run(spec: &RunSpec) -> ImplOut {
    let fs = MemFs {
        files: spec.files.clone(),
    };
    // diff -> line changes
    let mut changes_out: Outcome<Changes> = Outcome::Ok(BTreeMap::new());
    let mut line_changes = HashMap::new();
    if let Some(diff) = &spec.diff {
        match catch_unwind(AssertUnwindSafe(|| diff_parser::line_changes_from_diff(diff))) {
            Ok(Ok(m)) => {
                let mut c = BTreeMap::new();
                for (p, lcs) in &m {
                    c.insert(
                        p.display().to_string(),
                        lcs.iter()
                            .map(|lc| {
                                (
                                    lc.line,
                                    lc.ranges
                                        .as_ref()
                                        .map(|rs| rs.iter().map(|r| (r.start, r.end)).collect()),
                                )
                            })
                            .collect(),
                    );
                }
                changes_out = Outcome::Ok(c);
                line_changes = m;
            }
            Ok(Err(e)) => {
                let m = format!("{:#}", e);
                return ImplOut {
                    changes: Outcome::Err(E_DIFF, m.clone()),
                    list: Outcome::Err(E_DIFF, m.clone()),
                    run: Outcome::Err(E_DIFF, m),
                };
            }
            Err(p) => {
                let m = panic_msg(p);
                return ImplOut {
                    changes: Outcome::Panic(m.clone()),
                    list: Outcome::Panic(m.clone()),
                    run: Outcome::Panic(m),
                };
            }
        }
    }
    let scan = !spec.globs.is_empty();
    let parsed = catch_unwind(AssertUnwindSafe(|| -> anyhow::Result<_> {
        let checker = PathCheckerImpl::new(globset(&spec.globs)?, globset(&spec.ignores)?);
        let extm: HashMap<OsString, OsString> = spec
            .ext
            .iter()
            .map(|(k, v)| (OsString::from(k), OsString::from(v)))
            .collect();
        blocks::parse_blocks(
            line_changes,
            scan,
            &fs,
            &checker,
            language_parsers::language_parsers()?,
            extm,
        )
    }));
    let _ = verif_hooks::take();
    let blocks_map = match parsed {
        Ok(Ok(b)) => b,
        Ok(Err(e)) => {
            let m = format!("{:#}", e);
            let c = classify_error(&m);
            return ImplOut {
                changes: changes_out,
                list: Outcome::Err(c, m.clone()),
                run: Outcome::Err(c, m),
            };
        }
        Err(p) => {
            let m = panic_msg(p);
            return ImplOut {
                changes: changes_out,
                list: Outcome::Panic(m.clone()),
                run: Outcome::Panic(m),
            };
        }
    };
    let context = validators::ValidationContext::new(blocks_map);
    // list report
    let list = match catch_unwind(AssertUnwindSafe(|| context.to_serializable_report())) {
        Ok(rep) => {
            let mut out = Vec::new();
            for (path, blocks) in rep {
                for b in blocks {
                    let mut attrs: Vec<(String, String)> = b["attributes"]
                        .as_object()
                        .map(|o| o.iter().map(|(k, v)| (k.clone(), json_str(v))).collect())
                        .unwrap_or_default();
                    attrs.sort();
                    out.push(LBlock {
                        file: path.display().to_string(),
                        line: b["line"].as_u64().unwrap_or(0) as usize,
                        col: b["column"].as_u64().unwrap_or(0) as usize,
                        name: json_str(&b["name"]),
                        modified: b["is_content_modified"].as_bool().unwrap_or(false),
                        attrs,
                    });
                }
            }
            // stable, by file only: the order of a file's blocks is the implementation's (C03: source order)
            out.sort_by(|a, b| a.file.cmp(&b.file));
            Outcome::Ok(out)
        }
        Err(p) => Outcome::Panic(panic_msg(p)),
    };
    // validation
    let run = catch_unwind(AssertUnwindSafe(|| -> anyhow::Result<_> {
        let disabled: HashSet<&str> = spec.disabled.iter().map(|s| s.as_str()).collect();
        let enabled: HashSet<&str> = spec.enabled.iter().map(|s| s.as_str()).collect();
        let (sv, av) = validators::detect_validators(
            &context,
            validators::DETECTOR_FACTORIES,
            &disabled,
            &enabled,
        )?;
        validators::run(Arc::new(context), sv, av)
    }));
    let run = match run {
        Ok(Ok(v)) => {
            let mut ds = Vec::new();
            let mut exit = 0;
            for (path, vs) in v {
                for viol in vs {
                    let d = viol.as_simple_diagnostic();
                    let j = serde_json::to_value(&d).unwrap_or(serde_json::Value::Null);
                    let sev = j["severity"].as_u64().unwrap_or(0);
                    if sev == 1 {
                        exit = 1;
                    }
                    let code = json_str(&j["code"]);
                    ds.push(Diag {
                        file: path.display().to_string(),
                        sl: j["range"]["start"]["line"].as_u64().unwrap_or(0) as usize,
                        sc: j["range"]["start"]["character"].as_u64().unwrap_or(0) as usize,
                        el: j["range"]["end"]["line"].as_u64().unwrap_or(0) as usize,
                        ec: j["range"]["end"]["character"].as_u64().unwrap_or(0) as usize,
                        data: canon_data(&code, j.get("data")),
                        code,
                        sev,
                        message: json_str(&j["message"]),
                    });
                }
            }
            ds.sort();
            Outcome::Ok((ds, exit))
        }
        Ok(Err(e)) => {
            let m = format!("{:#}", e);
            Outcome::Err(classify_error(&m), m)
        }
        Err(p) => Outcome::Panic(panic_msg(p)),
    };
    ImplOut {
        changes: changes_out,
        list,
        run,
    }
}

//! A command line for the real binary, and its rendering as the `cliargs` record of
//! coq/theories/Main.v (the model of main.rs / flags.rs).  The harness decides nothing about
//! what the flags MEAN here: it only reports what was typed, whether globset accepts the globs,
//! and how the process ended.
use crate::cli::{self, CliOut};
use crate::coqw::*;
use crate::emit;
use crate::prng::Rng;

#[derive(Clone, Debug, Default)]
pub struct MainArgs {
    /// values typed after -E / --extension, verbatim, before the subcommand (or without one)
    pub ext_raw: Vec<String>,
    pub dis_raw: Vec<String>,
    pub en_raw: Vec<String>,
    pub ignores: Vec<String>,
    /// the same flags typed after the `list` subcommand
    pub ext_post: Vec<String>,
    pub dis_post: Vec<String>,
    pub en_post: Vec<String>,
    pub ign_post: Vec<String>,
    pub globs: Vec<String>,
    pub list: bool,
    /// globs typed after the `list` subcommand
    pub list_globs: Vec<String>,
}

pub const E_FLAGS: u32 = 19;
pub const E_USAGE: u32 = 20;
pub const E_ROOT: u32 = 21;
pub const E_GLOB: u32 = 22;

impl MainArgs {
    /// argv in one of the spellings clap accepts (short / long / `=` forms, global flags before or
    /// after the subcommand)
    pub fn argv(&self, rng: &mut Rng) -> Vec<String> {
        let mut flags: Vec<Vec<String>> = Vec::new();
        let mut flag = |short: &str, long: &str, v: &String, rng: &mut Rng| {
            // a value starting with '-' can only be given in the `=` form
            let dashy = v.starts_with('-');
            match if dashy { 2 } else if v.is_empty() { rng.below(3) } else { rng.below(4) } {
                0 => vec![short.to_string(), v.clone()],
                1 => vec![long.to_string(), v.clone()],
                2 => vec![format!("{long}={v}")],
                _ => vec![format!("{short}{v}")],
            }
        };
        let mut pre: Vec<Vec<String>> = Vec::new();
        let mut post: Vec<Vec<String>> = Vec::new();
        for v in &self.ext_raw {
            pre.push(flag("-E", "--extension", v, rng));
        }
        for v in &self.dis_raw {
            pre.push(flag("-d", "--disable", v, rng));
        }
        for v in &self.en_raw {
            pre.push(flag("-e", "--enable", v, rng));
        }
        for v in &self.ignores {
            pre.push(if rng.chance(1, 2) { vec!["--ignore".to_string(), v.clone()] } else { vec![format!("--ignore={v}")] });
        }
        for v in &self.ext_post {
            post.push(flag("-E", "--extension", v, rng));
        }
        for v in &self.dis_post {
            post.push(flag("-d", "--disable", v, rng));
        }
        for v in &self.en_post {
            post.push(flag("-e", "--enable", v, rng));
        }
        for v in &self.ign_post {
            post.push(if rng.chance(1, 2) { vec!["--ignore".to_string(), v.clone()] } else { vec![format!("--ignore={v}")] });
        }
        let mut a: Vec<String> = Vec::new();
        // flags and positional globs may be interleaved
        let mut globs: Vec<String> = self.globs.clone();
        for f in pre {
            if !globs.is_empty() && rng.chance(1, 3) {
                a.push(globs.remove(0));
            }
            a.extend(f);
        }
        a.extend(globs);
        if self.list {
            a.push("list".into());
            let mut lg: Vec<String> = self.list_globs.clone();
            for f in post {
                if !lg.is_empty() && rng.chance(1, 3) {
                    a.push(lg.remove(0));
                }
                a.extend(f);
            }
            a.extend(lg);
        }
        a
    }

    /// `mkcli ...` for Main.v
    pub fn coq(&self, stdin: &Option<String>, root: bool) -> String {
        let strs = |v: &Vec<String>| clist(v, |s| cstr(s));
        let ok = |v: &Vec<String>| v.iter().all(|g| globset::Glob::new(g).is_ok());
        let all_globs: Vec<String> = self.globs.iter().chain(self.list_globs.iter()).cloned().collect();
        format!(
            "(mkcli {} {} {} {} {} {} {} {} {} {} {} {} {} {} {})",
            strs(&self.ext_raw),
            strs(&self.ext_post),
            strs(&self.dis_raw),
            strs(&self.dis_post),
            strs(&self.en_raw),
            strs(&self.en_post),
            self.ign_post.len(),
            all_globs.len(),
            cbool(ok(&all_globs)),
            cbool(ok(&self.ignores)),
            cbool(ok(&self.ign_post)),
            cbool(self.list),
            cbool(stdin.is_none()),
            cstr(stdin.as_deref().unwrap_or("")),
            cbool(root)
        )
    }

    pub fn all_globs(&self) -> Vec<String> {
        self.globs.iter().chain(self.list_globs.iter()).cloned().collect()
    }
}

fn flag_class(stderr: &str) -> Option<u32> {
    let table: &[(&str, u32)] = &[
        ("Unsupported extension mapping", E_FLAGS),
        ("--enable and --disable flags must not be set at the same time", E_FLAGS),
        ("Could not find the repository root directory", E_ROOT),
        ("Invalid glob pattern", E_GLOB),
        ("Invalid ignore glob pattern", E_GLOB),
        ("Failed to build glob set", E_GLOB),
        ("Failed to build ignore glob set", E_GLOB),
    ];
    table.iter().find(|(n, _)| stderr.contains(n)).map(|(_, c)| *c)
}

/// how the process ended, as the `mobs` of Main.v
pub fn mobs_coq(o: &CliOut, list: bool) -> String {
    let crashed = o.timed_out || o.code.is_none() || o.stderr.contains("panicked at");
    if !crashed {
        if o.code == Some(2) {
            return format!("(MObsFail 2 {})", E_USAGE);
        }
        if o.code == Some(1) && o.stderr.starts_with("Error:") {
            if let Some(c) = flag_class(&o.stderr) {
                return format!("(MObsFail 1 {c})");
            }
        }
    }
    if list {
        format!("(MObsList {})", emit::lobs(&cli::interpret_list(o)))
    } else {
        format!("(MObsRun {})", emit::obs(&cli::interpret_run(o).0))
    }
}

/// a short label of the outcome for the evidence distribution
pub fn outcome_tag(o: &CliOut, list: bool) -> String {
    if o.code == Some(2) {
        return "main:usage-error".into();
    }
    if o.code == Some(1) && o.stderr.starts_with("Error:") {
        return match flag_class(&o.stderr) {
            Some(E_FLAGS) => "main:flag-error".into(),
            Some(E_ROOT) => "main:no-root".into(),
            Some(E_GLOB) => "main:bad-glob".into(),
            _ => "main:run-error".into(),
        };
    }
    if list { "main:listed".into() } else { "main:report".into() }
}

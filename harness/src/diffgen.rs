//! Edit scripts over a rendered file and git-shaped unified diffs of them.
use crate::prng::Rng;

/// one change group in NEW-file coordinates: before new line `t` (1-based; t = n+1 at the end),
/// `added` new lines starting at `t` exist only in the new file, `deleted` old lines exist only in the old
#[derive(Clone, Debug)]
pub struct Group {
    pub t: usize,
    pub added: usize,
    pub deleted: Vec<String>,
}

#[derive(Clone, Debug)]
pub struct FileDiff {
    pub path: String,
    pub old_path: Option<String>, // rename
    pub old_lines: Vec<String>,
    pub new_lines: Vec<String>,
    pub groups: Vec<Group>, // sorted by t, non-adjacent
    pub old_final_nl: bool,
    pub new_final_nl: bool,
    pub new_file: bool,
    pub deleted_file: bool,
}

/// footprint of a group as the specification sees it
#[derive(Clone, Debug)]
pub struct Footprint {
    pub t: usize,
    pub added: usize,
    pub deleted: usize,
    /// old-file line number of the first deleted line (0 when none)
    pub src: usize,
}

pub fn split_lines(text: &str) -> (Vec<String>, bool) {
    if text.is_empty() {
        return (vec![], true);
    }
    let final_nl = text.ends_with('\n');
    let body = if final_nl { &text[..text.len() - 1] } else { text };
    (body.split('\n').map(|s| s.to_string()).collect(), final_nl)
}

pub fn join_lines(lines: &[String], final_nl: bool) -> String {
    let mut s = lines.join("\n");
    if final_nl && !lines.is_empty() {
        s.push('\n');
    }
    s
}

/// the old file: new lines minus the added ones plus the deleted ones
pub fn old_from(new_lines: &[String], groups: &[Group]) -> Vec<String> {
    let mut old = Vec::new();
    let mut gi = 0;
    let mut i = 1; // new line number
    let n = new_lines.len();
    while i <= n + 1 {
        if gi < groups.len() && groups[gi].t == i {
            old.extend(groups[gi].deleted.iter().cloned());
            i += groups[gi].added;
            gi += 1;
            if groups[gi - 1].added > 0 {
                continue;
            }
        }
        if i <= n {
            old.push(new_lines[i - 1].clone());
        }
        i += 1;
    }
    old
}

pub fn footprints(fd: &FileDiff) -> Vec<Footprint> {
    let mut out = Vec::new();
    let mut shift: isize = 0; // old = new - shift ... tracked as (old line) = (new line) + shift
    for g in &fd.groups {
        let src = if g.deleted.is_empty() { 0 } else { (g.t as isize + shift) as usize };
        out.push(Footprint { t: g.t, added: g.added, deleted: g.deleted.len(), src });
        shift += g.deleted.len() as isize - g.added as isize;
    }
    out
}

/// unified diff of one file with `u` context lines, in git's format
pub fn render_file(fd: &FileDiff, u: usize, rng: &mut Rng) -> String {
    let mut out = String::new();
    let a = fd.old_path.clone().unwrap_or_else(|| fd.path.clone());
    out.push_str(&format!("diff --git a/{} b/{}\n", a, fd.path));
    if fd.new_file {
        out.push_str("new file mode 100644\n");
    }
    if fd.deleted_file {
        out.push_str("deleted file mode 100644\n");
    }
    if fd.old_path.is_some() {
        out.push_str(&format!("similarity index 8{}%\nrename from {}\nrename to {}\n", rng.below(10), a, fd.path));
    }
    out.push_str(&format!("index {:07x}..{:07x} 100644\n", rng.next() & 0xfffffff, rng.next() & 0xfffffff));
    if fd.groups.is_empty() {
        return out;
    }
    out.push_str(&if fd.new_file { "--- /dev/null\n".to_string() } else { format!("--- a/{}\n", a) });
    out.push_str(&if fd.deleted_file { "+++ /dev/null\n".to_string() } else { format!("+++ b/{}\n", fd.path) });
    // annotate: sequence of (kind, text, old_no, new_no)
    #[derive(Clone)]
    struct L {
        k: char,
        text: String,
        last_old: bool,
        last_new: bool,
    }
    let n = fd.new_lines.len();
    let m = fd.old_lines.len();
    let mut seq: Vec<L> = Vec::new();
    let mut gi = 0;
    let mut i = 1;
    let mut oi = 0; // old lines emitted
    while i <= n + 1 {
        if gi < fd.groups.len() && fd.groups[gi].t == i {
            let g = &fd.groups[gi];
            for d in &g.deleted {
                oi += 1;
                seq.push(L { k: '-', text: d.clone(), last_old: oi == m, last_new: false });
            }
            for k in 0..g.added {
                seq.push(L { k: '+', text: fd.new_lines[i - 1 + k].clone(), last_old: false, last_new: i + k == n });
            }
            i += g.added;
            gi += 1;
            if g.added > 0 {
                continue;
            }
        }
        if i <= n {
            oi += 1;
            seq.push(L { k: ' ', text: fd.new_lines[i - 1].clone(), last_old: oi == m, last_new: i == n });
        }
        i += 1;
    }
    // hunks: indices of changed entries, grown by u, merged when they touch
    let changed: Vec<usize> = seq.iter().enumerate().filter(|(_, l)| l.k != ' ').map(|(i, _)| i).collect();
    let mut ranges: Vec<(usize, usize)> = Vec::new();
    for &c in &changed {
        let lo = c.saturating_sub(u);
        let hi = (c + u).min(seq.len() - 1);
        if let Some(last) = ranges.last_mut() {
            if lo <= last.1 + 1 {
                last.1 = last.1.max(hi);
                continue;
            }
        }
        ranges.push((lo, hi));
    }
    for (lo, hi) in ranges {
        // line numbers at lo
        let old_before = seq[..lo].iter().filter(|l| l.k != '+').count();
        let new_before = seq[..lo].iter().filter(|l| l.k != '-').count();
        let ol = seq[lo..=hi].iter().filter(|l| l.k != '+').count();
        let nl = seq[lo..=hi].iter().filter(|l| l.k != '-').count();
        let os = if ol == 0 { old_before } else { old_before + 1 };
        let ns = if nl == 0 { new_before } else { new_before + 1 };
        let part = |s: usize, l: usize| if l == 1 { format!("{}", s) } else { format!("{},{}", s, l) };
        let section = if rng.chance(1, 3) { " fn ctx()" } else { "" };
        out.push_str(&format!("@@ -{} +{} @@{}\n", part(os, ol), part(ns, nl), section));
        for l in &seq[lo..=hi] {
            out.push(l.k);
            out.push_str(&l.text);
            out.push('\n');
            // (the generator keeps old_final_nl == new_final_nl)
            let no_nl = (l.k == '-' && l.last_old && !fd.old_final_nl)
                || (l.k == '+' && l.last_new && !fd.new_final_nl)
                || (l.k == ' ' && l.last_new && l.last_old && !fd.new_final_nl && !fd.old_final_nl);
            if no_nl {
                out.push_str("\\ No newline at end of file\n");
            }
        }
    }
    out
}

/// change groups of every file section of a unified diff, read off the hunks (new-file coordinates)
pub fn footprints_from_diff(diff: &str) -> Vec<(String, Vec<Footprint>, Vec<(Vec<String>, Vec<String>)>)> {
    let mut out: Vec<(String, Vec<Footprint>, Vec<(Vec<String>, Vec<String>)>)> = Vec::new();
    let mut cur: Option<usize> = None;
    let (mut old_no, mut new_no) = (0usize, 0usize);
    let (mut left_old, mut left_new) = (0usize, 0usize);
    let mut group: Option<(usize, usize, Vec<String>, Vec<String>)> = None; // (t, src, deleted, added)
    let mut flush = |group: &mut Option<(usize, usize, Vec<String>, Vec<String>)>, out: &mut Vec<(String, Vec<Footprint>, Vec<(Vec<String>, Vec<String>)>)>, cur: Option<usize>| {
        if let (Some((t, src, del, add)), Some(c)) = (group.take(), cur) {
            out[c].1.push(Footprint { t, added: add.len(), deleted: del.len(), src: if del.is_empty() { 0 } else { src } });
            out[c].2.push((del, add));
        }
    };
    for line in diff.lines() {
        if left_old == 0 && left_new == 0 {
            if let Some(p) = line.strip_prefix("+++ ") {
                flush(&mut group, &mut out, cur);
                let p = p.split('\t').next().unwrap_or(p);
                if p == "/dev/null" {
                    cur = None;
                } else {
                    out.push((p.strip_prefix("b/").unwrap_or(p).to_string(), Vec::new(), Vec::new()));
                    cur = Some(out.len() - 1);
                }
                continue;
            }
            if let Some(rest) = line.strip_prefix("@@ -") {
                flush(&mut group, &mut out, cur);
                let nums: Vec<&str> = rest.split(' ').collect();
                let parse = |s: &str| -> (usize, usize) {
                    let s = s.trim_start_matches('+');
                    match s.split_once(',') {
                        Some((a, b)) => (a.parse().unwrap_or(0), b.parse().unwrap_or(0)),
                        None => (s.parse().unwrap_or(0), 1),
                    }
                };
                let (os, ol) = parse(nums[0]);
                let (ns, nl) = parse(nums.get(1).copied().unwrap_or("+0"));
                old_no = if ol == 0 { os + 1 } else { os };
                new_no = if nl == 0 { ns + 1 } else { ns };
                left_old = ol;
                left_new = nl;
                continue;
            }
            continue;
        }
        match line.chars().next() {
            Some('+') => {
                let g = group.get_or_insert((new_no, old_no, Vec::new(), Vec::new()));
                g.3.push(line[1..].to_string());
                new_no += 1;
                left_new -= 1;
            }
            Some('-') => {
                let g = group.get_or_insert((new_no, old_no, Vec::new(), Vec::new()));
                g.2.push(line[1..].to_string());
                old_no += 1;
                left_old -= 1;
            }
            Some('\\') => {}
            _ => {
                flush(&mut group, &mut out, cur);
                old_no += 1;
                new_no += 1;
                left_old = left_old.saturating_sub(1);
                left_new = left_new.saturating_sub(1);
            }
        }
        if left_old == 0 && left_new == 0 {
            flush(&mut group, &mut out, cur);
        }
    }
    flush(&mut group, &mut out, cur);
    out
}

/// the diff git itself produces between two states of a set of files
/// variant: 0 unstaged, 1 staged, 2 commit-to-commit, 3 commit-to-commit with rename detection
pub fn real_git_diff(old: &[(String, String)], new: &[(String, String)], u: usize, variant: usize) -> Option<String> {
    use std::process::Command;
    static N: std::sync::atomic::AtomicUsize = std::sync::atomic::AtomicUsize::new(0);
    let base = std::env::var("BWV_SCRATCH").unwrap_or_else(|_| "/verif/.cache/scratch".to_string());
    let dir = std::path::PathBuf::from(base).join(format!("g{}_{}", std::process::id(), N.fetch_add(1, std::sync::atomic::Ordering::SeqCst)));
    let _ = std::fs::remove_dir_all(&dir);
    std::fs::create_dir_all(&dir).ok()?;
    let git = |args: &[&str]| -> Option<String> {
        let o = Command::new("git").args(["-c", "core.autocrlf=false", "-c", "core.quotepath=false", "-c", "user.name=t", "-c", "user.email=t@example.com", "-c", "init.defaultBranch=main", "-c", "diff.renames=false", "-c", "core.safecrlf=false"])
            .args(args).current_dir(&dir).env("GIT_CONFIG_NOSYSTEM", "1").env("HOME", &dir).output().ok()?;
        if !o.status.success() {
            return None;
        }
        Some(String::from_utf8_lossy(&o.stdout).to_string())
    };
    let write = |files: &[(String, String)]| -> Option<()> {
        for (p, t) in files {
            let path = dir.join(p);
            if let Some(parent) = path.parent() {
                std::fs::create_dir_all(parent).ok()?;
            }
            std::fs::write(path, t).ok()?;
        }
        Some(())
    };
    let res = (|| {
        git(&["init", "-q"])?;
        write(old)?;
        git(&["add", "-A"])?;
        git(&["commit", "-q", "-m", "old", "--allow-empty"])?;
        // files of the old state that are gone in the new state
        for (p, _) in old {
            if !new.iter().any(|(q, _)| q == p) {
                std::fs::remove_file(dir.join(p)).ok()?;
            }
        }
        write(new)?;
        let ctx = format!("-U{u}");
        match variant {
            0 => {
                // unstaged: new untracked files do not show up; mark them intent-to-add
                git(&["add", "-N", "."])?;
                git(&["diff", &ctx])
            }
            1 => {
                git(&["add", "-A"])?;
                git(&["diff", "--cached", &ctx])
            }
            2 => {
                git(&["add", "-A"])?;
                git(&["commit", "-q", "-m", "new"])?;
                git(&["diff", &ctx, "HEAD~1", "HEAD"])
            }
            _ => {
                git(&["add", "-A"])?;
                git(&["commit", "-q", "-m", "new"])?;
                git(&["diff", "-M", &ctx, "HEAD~1", "HEAD"])
            }
        }
    })();
    let _ = std::fs::remove_dir_all(&dir);
    res
}

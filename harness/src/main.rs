mod cli;
mod common;
mod diffgen;
mod coqw;
mod emit;
mod fakeai;
mod filegen;
mod imp;
mod mainargs;
mod prng;
mod reflect;
mod props {
    pub mod c09;
    pub mod keys;
    pub mod blocksgen;
    pub mod drift;
    pub mod mix;
    pub mod c10;
    pub mod scope;
    pub mod c17;
    pub mod c18;
    pub mod c19;
    pub mod c04;
}

use common::{CaseOut, Tier};
use prng::Rng;
use std::collections::{BTreeMap, BTreeSet};
use std::io::Write;

fn prop_header(prop: &str) -> &'static str {
    match prop {
        "C09" => props::c09::HEADER,
        "C06" | "C07" | "C08" => props::keys::HEADER,
        "C10" => props::c10::HEADER,
        "C03" | "C05" | "C12" => props::blocksgen::HEADER,
        "C01" | "C02" => props::drift::HEADER,
        "C11" | "C13" | "C14" | "C20" => props::mix::HEADER,
        "C15" | "C16" => props::scope::HEADER,
        "C17" => props::c17::HEADER,
        "C18" => props::c18::HEADER,
        "C19" => props::c19::HEADER,
        "C04" => props::c04::HEADER,
        _ => panic!("unknown property {prop}"),
    }
}

fn prop_gen(prop: &str, rng: &mut Rng, idx: usize, tier: Tier) -> CaseOut {
    match prop {
        "C09" => props::c09::generate(rng, idx, tier),
        "C10" => props::c10::generate(rng, idx, tier),
        "C11" => props::mix::generate_c11(rng, idx, tier),
        "C13" => props::mix::generate_c13(rng, idx, tier),
        "C14" => props::mix::generate_c14(rng, idx, tier),
        "C20" => props::mix::generate_c20(rng, idx, tier),
        "C17" => props::c17::generate(rng, idx, tier),
        "C18" => props::c18::generate(rng, idx, tier),
        "C19" => props::c19::generate(rng, idx, tier),
        "C04" => props::c04::generate(rng, idx, tier),
        "C15" => props::scope::generate_c15(rng, idx, tier),
        "C16" => props::scope::generate_c16(rng, idx, tier),
        "C01" => props::drift::generate(rng, idx, tier, false, false),
        "C02" => props::drift::generate(rng, idx, tier, idx % 2 == 1, true),
        "C03" => props::blocksgen::generate(props::blocksgen::Mode::Blocks, rng, idx, tier),
        "C05" => props::blocksgen::generate(props::blocksgen::Mode::Tags, rng, idx, tier),
        "C12" => props::blocksgen::generate(props::blocksgen::Mode::Damaged, rng, idx, tier),
        "C06" => props::keys::generate(props::keys::Rule::Sorted, rng, idx, tier),
        "C07" => props::keys::generate(props::keys::Rule::Unique, rng, idx, tier),
        "C08" => props::keys::generate(props::keys::Rule::Pattern, rng, idx, tier),
        _ => panic!("unknown property {prop}"),
    }
}

fn case_rng(prop: &str, seed: u64, idx: usize) -> Rng {
    let mut h: u64 = 0xcbf29ce484222325;
    for b in prop.bytes() {
        h = (h ^ b as u64).wrapping_mul(0x100000001b3);
    }
    let mut r = Rng::new(seed ^ h);
    let a = r.next();
    Rng::new(a.wrapping_add((idx as u64).wrapping_mul(0xD6E8_FEB8_6659_FD93)))
}

fn arg<'a>(args: &'a [String], name: &str) -> Option<&'a str> {
    args.iter().position(|a| a == name).and_then(|i| args.get(i + 1)).map(|s| s.as_str())
}

fn main() -> anyhow::Result<()> {
    let args: Vec<String> = std::env::args().collect();
    imp::quiet_panics();
    // the in-process implementation reads these; cases decide about them explicitly
    for v in ["BLOCKWATCH_AI_API_KEY", "BLOCKWATCH_AI_API_URL", "BLOCKWATCH_AI_MODEL", "BLOCKWATCH_LUA_MODE", "BLOCKWATCH_TERMINAL_MODE"] {
        // SAFETY: no other thread exists yet
        unsafe { std::env::remove_var(v) };
    }
    match args.get(1).map(|s| s.as_str()) {
        Some("reflect") => {
            let out = arg(&args, "--out").unwrap_or("/verif/coq/gen");
            reflect::run(out)
        }
        Some("gen") => {
            let prop = args.get(2).expect("property id").to_string();
            let seed: u64 = arg(&args, "--seed").unwrap_or("1").parse()?;
            let count: usize = arg(&args, "--count").unwrap_or("100").parse()?;
            let shards: usize = arg(&args, "--shards").unwrap_or("16").parse()?;
            let out = arg(&args, "--out").unwrap_or("/verif/coq/gen");
            let tier = if arg(&args, "--tier") == Some("thorough") { Tier::Thorough } else { Tier::Quick };
            let only: Option<usize> = arg(&args, "--only").map(|s| s.parse()).transpose()?;
            let tag = arg(&args, "--tag").unwrap_or("");
            generate_all(&prop, seed, count, shards, out, tier, only, tag)
        }
        Some("comments") => {
            let path = args.get(2).expect("path");
            let text = std::fs::read_to_string(path)?;
            let name = arg(&args, "--as").unwrap_or(path);
            println!("{:#?}", imp::comments_of(name, &text, &[]));
            let spec = imp::RunSpec { files: vec![(name.to_string(), text)], globs: vec!["**".into()], ..Default::default() };
            let out = imp::run(&spec);
            println!("{}", serde_json::to_string_pretty(&common::impl_json(&out))?);
            Ok(())
        }
        _ => {
            eprintln!("usage: bwv reflect --out DIR | bwv gen <Cnn> --seed S --count N --shards K --out DIR [--tier t] [--only idx]");
            std::process::exit(2);
        }
    }
}

#[allow(clippy::too_many_arguments)]
fn generate_all(prop: &str, seed: u64, count: usize, shards: usize, out: &str, tier: Tier, only: Option<usize>, tag: &str) -> anyhow::Result<()> {
    let idxs: Vec<usize> = match only {
        Some(i) => vec![i],
        None => (0..count).collect(),
    };
    // generate in parallel: one thread per shard
    let nshards = shards.max(1).min(idxs.len().max(1));
    let chunks: Vec<Vec<usize>> = (0..nshards).map(|k| idxs.iter().cloned().filter(|i| i % nshards == k).collect()).collect();
    let prop_s = prop.to_string();
    let handles: Vec<_> = chunks
        .into_iter()
        .enumerate()
        .map(|(k, chunk)| {
            let prop = prop_s.clone();
            std::thread::Builder::new()
                .stack_size(64 << 20)
                .spawn(move || {
                    let mut outs = Vec::new();
                    for i in chunk {
                        let mut rng = case_rng(&prop, seed, i);
                        outs.push((i, prop_gen(&prop, &mut rng, i, tier)));
                    }
                    (k, outs)
                })
                .unwrap()
        })
        .collect();
    let mut index = Vec::new();
    let mut keys = BTreeSet::new();
    let mut nontrivial_keys = BTreeSet::new();
    let mut hist: BTreeMap<String, usize> = BTreeMap::new();
    let mut samples = Vec::new();
    for h in handles {
        let (k, outs) = h.join().map_err(|_| anyhow::anyhow!("generator thread panicked"))?;
        let path = format!("{out}/cases_{prop}{tag}_{k}.v");
        let mut f = std::io::BufWriter::new(std::fs::File::create(&path)?);
        writeln!(f, "{}", prop_header(prop))?;
        writeln!(f, "Eval vm_compute in (failures [")?;
        for (j, (i, c)) in outs.iter().enumerate() {
            writeln!(f, "{}{}", if j > 0 { ";\n" } else { "" }, c.coq)?;
            index.push(serde_json::json!({"shard": k, "pos": j, "idx": i, "case": c.json}));
            keys.insert(c.key.clone());
            if c.nontrivial {
                nontrivial_keys.insert(c.key.clone());
            }
            for t in &c.tags {
                *hist.entry(t.clone()).or_insert(0) += 1;
            }
            if samples.len() < 3 && (*i % 97 == 0 || only.is_some()) {
                samples.push(c.json.clone());
            }
        }
        writeln!(f, "]).")?;
    }
    let meta = serde_json::json!({
        "property": prop, "seed": seed, "tier": if tier == Tier::Thorough { "thorough" } else { "quick" },
        "evaluations": index.len(), "distinct": keys.len(), "distinct_nontrivial": nontrivial_keys.len(),
        "histogram": hist, "samples": samples, "shards": nshards, "cases": index,
    });
    std::fs::write(format!("{out}/cases_{prop}{tag}.json"), serde_json::to_vec(&meta)?)?;
    Ok(())
}

//! Printing case ingredients as Coq terms (constructors of BW.Case).
use crate::coqw::*;
use crate::filegen::{self, Family};
use crate::imp::{Comment, Diag, LBlock, Outcome};
use std::collections::BTreeMap;

pub fn code_num(code: &str) -> u32 {
    match code {
        "affects" => 0,
        "keep-sorted" => 1,
        "keep-unique" => 2,
        "line-pattern" => 3,
        "line-count" => 4,
        "check-ai" => 5,
        "check-lua" => 6,
        _ => 50,
    }
}
pub const VALIDATOR_NAMES: [&str; 7] = ["affects", "keep-sorted", "keep-unique", "line-pattern", "line-count", "check-ai", "check-lua"];

pub fn pos(p: (usize, usize)) -> String {
    format!("({}, {})", p.0, p.1)
}

pub fn fcase(path: &str, text: &str, comments: &[Comment], family: Option<Family>) -> String {
    let spans: Vec<String> = comments
        .iter()
        .map(|c| {
            let raw = text.get(c.lo..c.hi).unwrap_or("");
            let kind = family.map(|f| filegen::kind_of(f, raw, c.group)).unwrap_or(filegen::K_RAW);
            format!("mkspan {} {} {} {}", c.lo, c.hi, kind, c.group)
        })
        .collect();
    format!("(mkfile {} {} [{}])", cstr(path), cstr(text), spans.join("; "))
}

pub fn diag(d: &Diag) -> String {
    format!(
        "({}, mkdiag {} {} {} {} {} {} {})",
        cstr(&d.file),
        d.sl,
        d.sc,
        d.el,
        d.ec,
        code_num(&d.code),
        d.sev,
        clist(&d.data, |s| cstr(s))
    )
}

pub fn obs(o: &Outcome<(Vec<Diag>, u32)>) -> String {
    match o {
        Outcome::Ok((ds, exit)) => format!("(ObsReport {} {})", clist(ds, diag), exit),
        Outcome::Err(c, _) => format!("(ObsErr {})", c),
        Outcome::Panic(_) => "ObsPanic".to_string(),
    }
}

pub fn attrs(a: &[(String, String)]) -> String {
    clist(a, |(k, v)| cpair(cstr(k), cstr(v)))
}

pub fn lblock(b: &LBlock) -> String {
    format!(
        "({}, mklblock {} {} {} {} {})",
        cstr(&b.file),
        cstr(&b.name),
        b.line,
        b.col,
        cbool(b.modified),
        attrs(&b.attrs)
    )
}

pub fn lobs(o: &Outcome<Vec<LBlock>>) -> String {
    match o {
        Outcome::Ok(bs) => format!("(LObsList {})", clist(bs, lblock)),
        Outcome::Err(c, _) => format!("(LObsErr {})", c),
        Outcome::Panic(_) => "LObsPanic".to_string(),
    }
}

#[derive(Default, Clone)]
pub struct Tables {
    pub rx_ok: BTreeMap<String, bool>,
    pub rx: BTreeMap<(String, String), Option<(usize, usize, Option<(usize, usize)>)>>,
    pub f64: BTreeMap<String, Option<u64>>,
    pub lua: BTreeMap<(String, String, String), (u32, String)>,
    pub ai: BTreeMap<(String, String), (u32, String)>,
}

impl Tables {
    /// records what `regex` answers for (pattern, text); returns whether the pattern compiles
    pub fn add_rx(&mut self, pattern: &str, text: &str) -> bool {
        match regex::Regex::new(pattern) {
            Err(_) => {
                self.rx_ok.insert(pattern.to_string(), false);
                false
            }
            Ok(re) => {
                self.rx_ok.insert(pattern.to_string(), true);
                let r = re.captures(text).map(|c| {
                    let m = c.get(0).unwrap();
                    (m.start(), m.end(), c.name("value").map(|g| (g.start(), g.end())))
                });
                self.rx.insert((pattern.to_string(), text.to_string()), r);
                true
            }
        }
    }
    pub fn add_f64(&mut self, s: &str) {
        self.f64.insert(s.to_string(), s.parse::<f64>().ok().map(|x| x.to_bits()));
    }
    /// the key the implementation would extract from `line` under `pattern` (empty pattern: trimmed line)
    pub fn key_of(pattern: &str, line: &str) -> Option<String> {
        if pattern.is_empty() {
            let t = line.trim();
            if t.is_empty() { None } else { Some(t.to_string()) }
        } else {
            let re = regex::Regex::new(pattern).ok()?;
            let c = re.captures(line)?;
            Some(c.name("value").map(|m| m.as_str().to_string()).unwrap_or_else(|| c.get(0).unwrap().as_str().to_string()))
        }
    }
    /// everything the validators may ask about a block with these attributes and this content
    pub fn add_block(&mut self, attrs: &[(String, String)], content: &str) {
        let get = |k: &str| attrs.iter().find(|(n, _)| n == k).map(|(_, v)| v.clone());
        let numeric = get("keep-sorted-format").is_some();
        for (attr, trimmed_too) in [("keep-sorted-pattern", false), ("keep-unique", false), ("line-pattern", true)] {
            if let Some(p) = get(attr) {
                if p.is_empty() && attr != "line-pattern" {
                    continue;
                }
                self.add_rx(&p, "");
                for line in content.lines() {
                    if trimmed_too {
                        self.add_rx(&p, line.trim());
                    } else {
                        self.add_rx(&p, line);
                    }
                }
            }
        }
        if numeric {
            let p = get("keep-sorted-pattern").unwrap_or_default();
            for line in content.lines() {
                if let Some(k) = Self::key_of(&p, line) {
                    self.add_f64(&k);
                }
            }
        }
        for attr in ["check-lua-pattern", "check-ai-pattern"] {
            if let Some(p) = get(attr) {
                self.add_rx(&p, content);
            }
        }
    }
    pub fn coq(&self) -> String {
        let rxok: Vec<String> = self.rx_ok.iter().map(|(p, b)| cpair(cstr(p), cbool(*b).to_string())).collect();
        let rx: Vec<String> = self
            .rx
            .iter()
            .map(|((p, t), m)| {
                format!(
                    "({}, {}, {})",
                    cstr(p),
                    cstr(t),
                    copt(m, |(a, b, g)| format!("({}, {}, {})", a, b, copt(g, |(x, y)| format!("({}, {})", x, y))))
                )
            })
            .collect();
        let f64s: Vec<String> = self.f64.iter().map(|(s, b)| cpair(cstr(s), copt(b, |x| x.to_string()))).collect();
        let lua: Vec<String> = self
            .lua
            .iter()
            .map(|((a, b, c), (cls, msg))| format!("({}, {}, {}, ({}, {}))", cstr(a), cstr(b), cstr(c), cls, cstr(msg)))
            .collect();
        let ai: Vec<String> = self
            .ai
            .iter()
            .map(|((a, b), (cls, msg))| format!("({}, {}, ({}, {}))", cstr(a), cstr(b), cls, cstr(msg)))
            .collect();
        format!(
            "(mktables [{}] [{}] [{}] [{}] [{}])",
            rxok.join("; "),
            rx.join("; "),
            f64s.join("; "),
            lua.join("; "),
            ai.join("; ")
        )
    }
}

//! C01 / C02: repositories of 1-3 files with blocks (names, affects references,
//! occasional content rules), an edit script placed systematically at block
//! boundaries, rendered as a git-shaped unified diff; diff-only, diff+globs.
use crate::common::*;
use crate::coqw::*;
use crate::diffgen::*;
use crate::emit::{self, Tables};
use crate::filegen::*;
use crate::imp::{self, Outcome, RunSpec};
use crate::prng::Rng;
use serde_json::json;

pub const HEADER: &str = "From BW Require Import SpecDrift.";

const LANGS_D: [&str; 8] = ["python", "c", "rust", "js", "java", "sql", "bash", "html"];

struct GenFile {
    path: String,
    lang: &'static Lang,
    rendered: Rendered,
    /// per by-construction block: (start comment first/last line, end comment first/last line, one-line start comment, has trailing content)
    spans: Vec<(usize, usize, usize, usize)>,
    expect: Vec<u32>,
}

fn comment_lines(r: &Rendered, b: &ExpBlock) -> (usize, usize, usize, usize) {
    // start comment = the span ending at clo; end comment = the span starting at chi
    let s = r.spans.iter().find(|s| s.hi == b.clo).expect("start comment span");
    let e = r.spans.iter().find(|s| s.lo == b.chi).expect("end comment span");
    let last_line = |hi: usize| {
        // a span that includes its line terminator ends on the terminator's line
        let mut h = hi;
        while h > 0 && (r.text.as_bytes()[h - 1] == b'\n' || r.text.as_bytes()[h - 1] == b'\r') {
            h -= 1;
        }
        pos_at(&r.text, h).0
    };
    (pos_at(&r.text, s.lo).0, last_line(s.hi), pos_at(&r.text, e.lo).0, last_line(e.hi))
}

fn gen_file(rng: &mut Rng, fi: usize, idx: usize, names: &mut Vec<(String, String)>, rules: bool) -> (FileSpec, String) {
    let lang = lang(LANGS_D[(idx / 3 + fi) % LANGS_D.len()]);
    let suffix = lang.suffixes[rng.below(lang.suffixes.len())];
    let dir = ["", "src/", "b/", "a/b/", "docs/x y/"][rng.below(5)];
    let path = format!("{dir}f{fi}.{suffix}");
    let nblocks = rng.range(1, 4);
    let mut nodes = Vec::new();
    if rng.chance(1, 2) {
        for _ in 0..rng.range(1, 4) {
            nodes.push(GNode::Text(lang.code[rng.below(lang.code.len())].to_string()));
        }
    }
    for bi in 0..nblocks {
        let name = if rng.chance(1, 8) && !names.is_empty() { names[rng.below(names.len())].1.clone() } else { format!("n{fi}{bi}") };
        names.push((path.clone(), name.clone()));
        let mut attrs: Vec<(String, String)> = vec![("name".into(), name), ("note".into(), format!("v{}", rng.below(9)))];
        if rng.chance(1, 8) {
            attrs.remove(0);
        }
        // affects is filled in later (needs all names); placeholder keeps the slot
        attrs.push(("affects".into(), "@".into()));
        // content rules (C02: same verdicts as a full scan for every selected block)
        if rules {
            match rng.below(5) {
                0 => attrs.push(("keep-sorted".into(), ["asc", "desc"][rng.below(2)].into())),
                1 => attrs.push(("line-count".into(), format!("{}{}", ["<", ">", "=="][rng.below(3)], rng.below(5)))),
                2 => attrs.push(("keep-unique".into(), String::new())),
                3 => {
                    attrs.push(("keep-sorted".into(), "asc".into()));
                    attrs.push(("line-count".into(), "<2".into()));
                }
                _ => {}
            }
        }
        let mut start = if lang.block.is_some() && (lang.line.is_empty() || rng.chance(1, 3)) {
            if rng.chance(1, 3) { Place { form: Form::BlockMulti { before: rng.below(2), after: rng.below(3), deco: rng.chance(1, 2) && lang.block.map(|b| b.0) == Some("/*") }, indent: String::new(), pre: " ".into(), post: " ".into(), trailing: String::new() } } else { Place::block_one() }
        } else {
            Place { form: Form::Line(rng.below(4)), ..Place::line() }
        };
        if matches!(start.form, Form::BlockOne) && rng.chance(1, 2) {
            start.trailing = format!(" {}", lang.wrap_token("t0"));
        }
        if rng.chance(1, 6) {
            start.indent = "  ".into();
        }
        // multi-byte text before the tag: columns are bytes, char-level diffs count chars
        if rng.chance(1, 3) && !matches!(start.form, Form::BlockMulti { .. }) {
            start.pre = [" é ", " 日本語 ", " ééééééééééééééééééééé ", " 🙂 "][rng.below(4)].to_string();
        }
        let end = if lang.line.is_empty() || (lang.block.is_some() && rng.chance(1, 4)) { Place::block_one() } else { Place::line() };
        let mut body = Vec::new();
        let nlines = rng.range(0, 5);
        let mut ks: Vec<usize> = (0..nlines).collect();
        if rules && rng.chance(1, 2) && nlines >= 2 {
            let a = rng.below(nlines);
            let b = rng.below(nlines);
            ks.swap(a, b);
            if rng.chance(1, 3) {
                ks[a] = ks[b];
            }
        }
        for k in ks {
            // (blank content lines: replacing a line by an empty one is a change like any other)
            if rng.chance(1, 6) {
                body.push(GNode::Text(String::new()));
            }
            body.push(GNode::Text(lang.wrap_token(&format!("c{bi}{k}"))));
        }
        if rng.chance(1, 5) && !lang.line.is_empty() {
            // a nested block
            let inner = format!("i{fi}{bi}");
            names.push((path.clone(), inner.clone()));
            body.insert(
                rng.below(body.len() + 1),
                GNode::Blk(GBlock { tag: TagSrc::simple(&[("name", inner.as_str())]), start: Place::line(), end: Place::line(), end_tag: "</block>".into(), body: vec![GNode::Text(lang.wrap_token("deep"))] }),
            );
        }
        let aref: Vec<(&str, &str)> = attrs.iter().map(|(k, v)| (k.as_str(), v.as_str())).collect();
        nodes.push(GNode::Blk(GBlock { tag: TagSrc::simple(&aref), start, end, end_tag: "</block>".into(), body }));
        for _ in 0..rng.below(4) {
            nodes.push(GNode::Text(lang.code[rng.below(lang.code.len())].to_string()));
        }
    }
    (FileSpec { lang, nodes, crlf: false, final_newline: !rng.chance(1, 10) }, path)
}

fn fill_affects(nodes: &mut [GNode], rng: &mut Rng, names: &[(String, String)], own: &str) {
    for n in nodes.iter_mut() {
        if let GNode::Blk(b) = n {
            let mut keep = Vec::new();
            for a in b.tag.attrs.drain(..) {
                if a.name == "affects" {
                    if rng.chance(3, 5) {
                        let k = rng.range(1, 3);
                        let mut refs = Vec::new();
                        for _ in 0..k {
                            let (f, nm) = if rng.chance(1, 6) { ("ghost.py".to_string(), "nobody".to_string()) } else { names[rng.below(names.len())].clone() };
                            let r = if f == own && rng.chance(2, 3) { format!(":{nm}") } else { format!("{f}:{nm}") };
                            refs.push(r);
                        }
                        let sep = [",", ", ", " , "][rng.below(3)];
                        keep.push(Attr { ws: " ".into(), name: "affects".into(), val: Some((String::new(), String::new(), AVal::Dq(refs.join(sep)))) });
                    }
                } else {
                    keep.push(a);
                }
            }
            b.tag.attrs = keep;
            fill_affects(&mut b.body, rng, names, own);
        }
    }
}

fn mutate_within(rng: &mut Rng, line: &str, lo: usize, hi: usize) -> String {
    // change characters of line[lo..hi) (byte offsets on char boundaries): replace, insert or delete
    let seg = &line[lo..hi];
    let chars: Vec<char> = seg.chars().collect();
    let mut out: Vec<char> = chars.clone();
    let reps = ['q', 'Z', '7', 'é', '_'];
    match rng.below(3) {
        0 if !out.is_empty() => {
            let i = rng.below(out.len());
            let mut c = *rng.pick(&reps);
            if c == out[i] {
                c = 'w';
            }
            out[i] = c;
        }
        1 => {
            let i = rng.below(out.len() + 1);
            out.insert(i, *rng.pick(&reps));
        }
        _ if out.len() > 1 => {
            let i = rng.below(out.len());
            out.remove(i);
        }
        _ => out.push('q'),
    }
    if out == chars {
        out.push('q');
    }
    format!("{}{}{}", &line[..lo], out.iter().collect::<String>(), &line[hi..])
}

pub fn generate(rng: &mut Rng, idx: usize, tier: Tier, with_globs: bool, rules: bool) -> CaseOut {
    let real_git = idx % 10 == 3 || (tier == Tier::Thorough && idx % 5 == 1);
    let nfiles = rng.range(1, 3);
    let mut names: Vec<(String, String)> = Vec::new();
    let mut specs = Vec::new();
    for fi in 0..nfiles {
        specs.push(gen_file(rng, fi, idx, &mut names, rules));
    }
    let mut files: Vec<GenFile> = Vec::new();
    for (mut fs, path) in specs {
        fill_affects(&mut fs.nodes, rng, &names, &path);
        let r = render(&fs);
        let spans = r.blocks.iter().map(|b| comment_lines(&r, b)).collect();
        let n = r.blocks.len();
        files.push(GenFile { path, lang: fs.lang, rendered: r, spans, expect: vec![0; n] });
    }
    let mut tags: Vec<String> = vec![format!("files:{nfiles}")];
    // ---- edit scripts ----
    let u = rng.below(11);
    let mut diffs: Vec<FileDiff> = Vec::new();
    let mut f3 = false;
    let targeted_file = rng.below(files.len());
    for (fi, gf) in files.iter_mut().enumerate() {
        if fi != targeted_file && rng.chance(1, 3) {
            continue; // unchanged file: not in the diff
        }
        let (new_lines, final_nl) = split_lines(&gf.rendered.text);
        let n = new_lines.len();
        if n == 0 {
            continue;
        }
        let mut groups: Vec<Group> = Vec::new();
        let mut special: Option<(usize, u32)> = None; // (block index, expect class)
        // one group placed systematically at a boundary of a chosen block
        if fi == targeted_file && !gf.rendered.blocks.is_empty() {
            let bi = (idx / 7) % gf.rendered.blocks.len();
            let (sf, sl, ef, el) = gf.spans[bi];
            let b = &gf.rendered.blocks[bi];
            let one_line_start = sf == sl;
            let place = idx % 12;
            let kind = (idx / 12) % 4; // 0 add, 1 modify, 2 pure delete, 3 mixed (2 deleted, 1 added)
            let line = match place {
                0 => sf.saturating_sub(1).max(1),
                1 => sf,
                2 => sl,
                3 => (sl + 1).min(n),
                4 => ((sl + ef) / 2).max(1),
                5 => ef.saturating_sub(1).max(1),
                6 => ef,
                7 => el,
                8 => (el + 1).min(n),
                9 => (el + 3).min(n),
                10 => sf.saturating_sub(3).max(1),
                _ => rng.range(1, n),
            };
            // scenario classes judged on the tag lines themselves
            let class = (idx / 48) % 5;
            if class == 1 && one_line_start && b.ts.0 == sf {
                // edit only attribute text inside the start tag
                let l = &new_lines[sf - 1];
                if let Some(p) = l.find("note=\"") {
                    let lo = p + 6;
                    let hi = lo + l[lo..].find('"').unwrap_or(0);
                    if hi > lo {
                        groups.push(Group { t: sf, added: 1, deleted: vec![mutate_within(rng, l, lo, hi)] });
                        special = Some((bi, 1));
                    }
                }
            } else if class == 2 && ef == el && el > sl {
                // edit only the end-tag comment
                let l = &new_lines[ef - 1];
                if let Some(p) = l.find("</block>") {
                    // inside the comment, before the tag
                    let sp = gf.rendered.spans.iter().find(|s| s.lo == b.chi).unwrap();
                    let col0 = pos_at(&gf.rendered.text, sp.lo).1 - 1;
                    if p > col0 {
                        groups.push(Group { t: ef, added: 1, deleted: vec![mutate_within(rng, l, col0 + 1, p)] });
                        special = Some((bi, 2));
                    }
                }
            } else if class == 3 && one_line_start && sl < ef {
                // edit only content that follows the start tag's comment on its line
                let l = &new_lines[sl - 1];
                let col = b.cs.1 - 1;
                if b.cs.0 == sl && col < l.len() && !l[col..].trim().is_empty() {
                    groups.push(Group { t: sl, added: 1, deleted: vec![mutate_within(rng, l, col + 1, l.len())] });
                    special = Some((bi, 3));
                }
            }
            // scenario 4: earlier hunks shrink the file so much that a pure deletion shortly above the
            // block carries an OLD line number beyond the block's last new line, then an edit inside the block
            let mut shift_done = false;
            if class == 4 && special.is_none() && sf >= 7 && ef > sl + 1 {
                let big = (el - sf) + rng.range(6, 12);
                groups.push(Group { t: 1, added: 0, deleted: (0..big).map(|k| gf.lang.wrap_token(&format!("top{k}"))).collect() });
                groups.push(Group { t: sf - 3, added: 0, deleted: vec![gf.lang.wrap_token("above")] });
                let inside = rng.range(sl + 1, ef - 1);
                let l = &new_lines[inside - 1];
                groups.push(Group { t: inside, added: 1, deleted: vec![if l.is_empty() { "x".to_string() } else { mutate_within(rng, l, 0, l.len()) }] });
                tags.push("scenario:shifted-deletion-before-block".into());
                shift_done = true;
            }
            if special.is_none() && !shift_done {
                let g = match kind {
                    0 => Group { t: line, added: rng.range(1, 2).min(n + 1 - line), deleted: vec![] },
                    1 => {
                        let l = &new_lines[line - 1];
                        let old = if l.is_empty() { "x".to_string() } else {
                            // prefer a change that keeps multi-byte text before the changed place
                            let lo = if rng.chance(1, 2) { 0 } else { let mut k = rng.below(l.len()); while !l.is_char_boundary(k) { k -= 1; } k };
                            mutate_within(rng, l, lo, l.len())
                        };
                        Group { t: line, added: 1, deleted: vec![old] }
                    }
                    2 => Group { t: line, added: 0, deleted: (0..rng.range(1, 3)).map(|k| gf.lang.wrap_token(&format!("gone{k}"))).collect() },
                    _ => Group { t: line, added: 1, deleted: vec![gf.lang.wrap_token("old1"), gf.lang.wrap_token("old2")] },
                };
                groups.push(g);
                tags.push(format!("place:{place}"));
                tags.push(format!("kind:{}", ["add", "modify", "delete", "mixed"][kind]));
            } else if let Some((_, cls)) = special {
                tags.push(format!("class:{cls}"));
            }
        }
        // random further groups, kept apart from the existing ones (special scenarios need quiet surroundings)
        let extra = if special.is_some() { rng.below(2) } else if tags.last().map(|t| t.starts_with("scenario:")).unwrap_or(false) { 0 } else { rng.below(4) };
        for _ in 0..extra {
            let t = rng.range(1, n + 1);
            let added = if t <= n { rng.below(3).min(n + 1 - t) } else { 0 };
            let ndel = if added == 0 { rng.range(1, 2) } else { rng.below(3) };
            let deleted: Vec<String> = (0..ndel)
                .map(|k| {
                    if k < added && rng.chance(1, 2) {
                        let l = &new_lines[t - 1 + k];
                        if l.is_empty() { "y".to_string() } else { mutate_within(rng, l, 0, l.len()) }
                    } else if rng.chance(1, 40) {
                        f3 = true;
                        "-- sql style comment".to_string()
                    } else {
                        gf.lang.wrap_token(&format!("rm{k}"))
                    }
                })
                .collect();
            let g = Group { t, added, deleted };
            let lo = g.t.saturating_sub(1);
            let hi = g.t + g.added;
            let clash = groups.iter().any(|o| !(hi + 1 < o.t || o.t + o.added + 1 < lo));
            let near_special = special.map(|(bi, _)| {
                let (sf, _, _, el) = gf.spans[bi];
                !(hi + 2 < sf || el + 2 < lo)
            }).unwrap_or(false);
            if !clash && !near_special {
                groups.push(g);
            }
        }
        if groups.is_empty() {
            continue;
        }
        groups.sort_by_key(|g| g.t);
        if let Some((bi, cls)) = special {
            gf.expect[bi] = cls;
        }
        // a removed line starting with "-- " / an added line starting with "++ " is a header look-alike (F3)
        for g in &groups {
            if g.deleted.iter().any(|d| d.starts_with("-- ")) {
                f3 = true;
            }
            for k in 0..g.added {
                if new_lines[g.t - 1 + k].starts_with("++ ") {
                    f3 = true;
                }
            }
        }
        let old_lines = old_from(&new_lines, &groups);
        diffs.push(FileDiff { path: gf.path.clone(), old_path: if rng.chance(1, 12) { Some(format!("old_{}", gf.path.replace('/', "_"))) } else { None }, old_lines, new_lines, groups, old_final_nl: final_nl, new_final_nl: final_nl, new_file: false, deleted_file: false });
    }
    // a wholly new file: every line added
    if rng.chance(1, 8) {
        let gi = rng.below(files.len());
        let gf = &files[gi];
        if !diffs.iter().any(|d| d.path == gf.path) {
            let (new_lines, final_nl) = split_lines(&gf.rendered.text);
            if !new_lines.is_empty() {
                let n = new_lines.len();
                diffs.push(FileDiff { path: gf.path.clone(), old_path: None, old_lines: vec![], new_lines, groups: vec![Group { t: 1, added: n, deleted: vec![] }], old_final_nl: true, new_final_nl: final_nl, new_file: true, deleted_file: false });
                tags.push("new-file".into());
            }
        }
    }
    // a deleted file (ignored by blockwatch)
    let mut diff_text = String::new();
    let _ = &mut diff_text;
    let mut order: Vec<usize> = (0..diffs.len()).collect();
    if rng.chance(1, 2) {
        order.reverse();
    }
    let mut deleted_at = if rng.chance(1, 8) { Some(rng.below(order.len() + 1)) } else { None };
    for (k, di) in order.iter().enumerate() {
        if deleted_at == Some(k) {
            let dl = vec!["gone = 1".to_string(), "# <block name=\"dead\">".to_string()];
            let fd = FileDiff { path: "removed.py".into(), old_path: None, old_lines: dl.clone(), new_lines: vec![], groups: vec![Group { t: 1, added: 0, deleted: dl }], old_final_nl: true, new_final_nl: true, new_file: false, deleted_file: true };
            diff_text.push_str(&render_file(&fd, u, rng));
            deleted_at = None;
            tags.push("deleted-file".into());
        }
        diff_text.push_str(&render_file(&diffs[*di], u, rng));
    }
    // every fifth case: the diff is the one git itself produces for the same pair of repository states
    let mut git_fps: Option<Vec<(String, Vec<Footprint>, Vec<(Vec<String>, Vec<String>)>)>> = None;
    if real_git && !diffs.is_empty() {
        let mut old_state: Vec<(String, String)> = Vec::new();
        let mut new_state: Vec<(String, String)> = Vec::new();
        for gf in &files {
            new_state.push((gf.path.clone(), gf.rendered.text.clone()));
            match diffs.iter().find(|d| d.path == gf.path) {
                Some(d) if d.new_file => {}
                Some(d) => old_state.push((d.old_path.clone().unwrap_or_else(|| gf.path.clone()), join_lines(&d.old_lines, d.old_final_nl))),
                None => old_state.push((gf.path.clone(), gf.rendered.text.clone())),
            }
        }
        let variant = rng.below(4);
        if let Some(gd) = real_git_diff(&old_state, &new_state, u, variant) {
            if !gd.is_empty() {
                let fp = footprints_from_diff(&gd);
                // git's own choice of alignment decides the footprints
                f3 = fp.iter().any(|(_, _, pairs)| pairs.iter().any(|(del, add)| del.iter().any(|l| l.starts_with("-- ")) || add.iter().any(|l| l.starts_with("++ "))));
                diff_text = gd;
                git_fps = Some(fp);
                tags.push(format!("real-git:{}", ["unstaged", "staged", "commits", "commits-M"][variant]));
                // scenario expectations were planned for the generated script; git may align differently
                for gf in files.iter_mut() {
                    for e in gf.expect.iter_mut() {
                        *e = 0;
                    }
                }
            }
        }
    }
    tags.push(format!("U:{u}"));
    tags.push(format!("diff-files:{}", diffs.len()));
    // ---- run ----
    let globs: Vec<String> = if with_globs {
        match rng.below(3) {
            0 => vec!["**".into()],
            1 => vec![format!("**/*.{}", files[0].path.rsplit('.').next().unwrap_or("py"))],
            _ => vec![files[rng.below(files.len())].path.clone()],
        }
    } else {
        vec![]
    };
    let spec = RunSpec { files: files.iter().map(|f| (f.path.clone(), f.rendered.text.clone())).collect(), diff: Some(diff_text.clone()), globs: globs.clone(), ..Default::default() };
    let out = imp::run(&spec);
    let (_, comments, _) = fcases(&spec);
    let allow = imp::globset(&globs).unwrap();
    let mut tables = Tables::default();
    let mut rfiles = Vec::new();
    let mut scanned = Vec::new();
    for (k, gf) in files.iter().enumerate() {
        for (bi, b) in gf.rendered.blocks.iter().enumerate() {
            tables.add_block(&b.attrs, content_of(&gf.rendered, bi));
        }
        let al = allow.is_match(&gf.path);
        if al && with_globs {
            scanned.push(cstr(&gf.path));
        }
        let fam = family_of_path(&gf.path, &[]);
        let spans: Vec<String> = comments[k].iter().map(|c| {
            let raw = gf.rendered.text.get(c.lo..c.hi).unwrap_or("");
            format!("mkspan {} {} {} {}", c.lo, c.hi, fam.map(|f| kind_of(f, raw, c.group)).unwrap_or(K_RAW), c.group)
        }).collect();
        rfiles.push(format!("(mkrfile {} {} [{}] true {} false)", cstr(&gf.path), cstr(&gf.rendered.text), spans.join("; "), cbool(al)));
    }
    // diff paths that do not exist on disk (the removed file is skipped before any lookup)
    // char-level diffs of every (deleted, added) pair within a group
    let mut cd: Vec<String> = Vec::new();
    let mut seen = std::collections::BTreeSet::new();
    // (deleted, added) line pairs of every change group, from git's diff when it is the input
    let pair_groups: Vec<(Vec<String>, Vec<String>)> = match &git_fps {
        Some(fp) => fp.iter().flat_map(|(_, _, pairs)| pairs.iter().cloned()).collect(),
        None => diffs.iter().flat_map(|d| d.groups.iter().map(|g| (g.deleted.clone(), (0..g.added).map(|k| d.new_lines[g.t - 1 + k].clone()).collect::<Vec<_>>())).collect::<Vec<_>>()).collect(),
    };
    for (dels, adds) in &pair_groups {
        {
            for del in dels {
                for new in adds {
                    {
                    if !seen.insert((del.clone(), new.clone())) {
                        continue;
                    }
                    let td = similar::TextDiff::from_chars(del.as_str(), new.as_str());
                    let ops: Vec<String> = td.ops().iter().map(|op| match *op {
                        similar::DiffOp::Equal { old_index, new_index, len } => format!("DEqual {old_index} {new_index} {len}"),
                        similar::DiffOp::Delete { old_index, old_len, new_index } => format!("DDelete {old_index} {old_len} {new_index}"),
                        similar::DiffOp::Insert { old_index, new_index, new_len } => format!("DInsert {old_index} {new_index} {new_len}"),
                        similar::DiffOp::Replace { old_index, old_len, new_index, new_len } => format!("DReplace {old_index} {old_len} {new_index} {new_len}"),
                    }).collect();
                    cd.push(format!("({}, {}, [{}])", cstr(del), cstr(new), ops.join("; ")));
                    }
                }
            }
        }
    }
    let rcase = format!("(mkrcase [{}] (Some {}) {} [] [] [] {} [{}])", rfiles.join("; "), cstr(&diff_text), cbool(with_globs), tables.coq(), cd.join("; "));
    let cobs = match &out.changes {
        Outcome::Ok(m) => format!("(CObs [{}])", m.iter().map(|(p, lcs)| format!("({}, [{}])", cstr(p), lcs.iter().map(|(l, r)| format!("mklc {} {}", l, copt(r, |rs| clist(rs, |(a, b)| format!("({a}, {b})"))))).collect::<Vec<_>>().join("; "))).collect::<Vec<_>>().join("; ")),
        Outcome::Err(_, _) => "CObsErr".to_string(),
        Outcome::Panic(_) => "CObsPanic".to_string(),
    };
    let mut facts = Vec::new();
    let mut jfacts = Vec::new();
    for gf in &files {
        for (bi, b) in gf.rendered.blocks.iter().enumerate() {
            let (sf, sl, ef, el) = gf.spans[bi];
            facts.push(format!("mkbfacts {} {} {} {} {} {} {}", cstr(&gf.path), emit::pos(b.ts), sf, sl, ef, el, gf.expect[bi]));
            jfacts.push(json!({"file": gf.path, "tag_at": [b.ts.0, b.ts.1], "start_comment_lines": [sf, sl], "end_comment_lines": [ef, el], "scenario": gf.expect[bi]}));
        }
    }
    let mut fps = Vec::new();
    let mut jfps = Vec::new();
    let all_fps: Vec<(String, Vec<Footprint>)> = match &git_fps {
        Some(fp) => fp.iter().map(|(p, f, _)| (p.clone(), f.clone())).collect(),
        None => diffs.iter().map(|d| (d.path.clone(), footprints(d))).collect(),
    };
    for (path, f) in &all_fps {
        jfps.push(json!({"file": path, "groups": f.iter().map(|x| json!([x.t, x.added, x.deleted, x.src])).collect::<Vec<_>>()}));
        fps.push(format!("({}, [{}])", cstr(path), f.iter().map(|x| format!("mkfp {} {} {} {}", x.t, x.added, x.deleted, x.src)).collect::<Vec<_>>().join("; ")));
    }
    // relational oracle (independent of the model): content-rule diagnostics of this run = those of a
    // full scan of the same files, restricted to the blocks this run selected
    let mut rel_ok = true;
    let mut rel_json = json!(null);
    if rules {
        let scan = imp::run(&RunSpec { files: spec.files.clone(), globs: vec!["**".into()], ..Default::default() });
        if let (Outcome::Ok((full, _)), Outcome::Ok((mine, _)), Outcome::Ok(listed)) = (&scan.run, &out.run, &out.list) {
            let owner = |d: &imp::Diag| -> Option<(String, usize, usize)> {
                let gf = files.iter().find(|f| f.path == d.file)?;
                // the outermost block by construction whose lines hold the diagnostic
                gf.rendered.blocks.iter().zip(gf.spans.iter()).filter(|(b, sp)| b.depth == 0 && sp.0 <= d.sl && d.sl <= sp.3).map(|(b, _)| (d.file.clone(), b.ts.0, b.ts.1)).next()
            };
            let selected = |o: &(String, usize, usize)| listed.iter().any(|l| l.file == o.0 && l.line == o.1 && l.col == o.2);
            let key = |d: &imp::Diag| (d.file.clone(), d.sl, d.sc, d.el, d.ec, d.code.clone(), d.sev, d.data.clone());
            let mut want: Vec<_> = full.iter().filter(|d| d.code != "affects").filter(|d| owner(d).map(|o| selected(&o)).unwrap_or(false)).map(key).collect();
            let mut got: Vec<_> = mine.iter().filter(|d| d.code != "affects").map(key).collect();
            want.sort();
            got.sort();
            rel_ok = want == got;
            rel_json = json!({"full_scan_rule_diagnostics": full.iter().filter(|d| d.code != "affects").count(), "this_run": got.len(), "expected": want.len()});
            tags.push(format!("rule-diags:{}", got.len().min(4)));
        }
    }
    let coq = format!(
        "(check_drift_rel {} {} {} {} [{}] [{}] [{}] {} {})",
        rcase, cobs, emit::lobs(&out.list), emit::obs(&out.run), scanned.join("; "), facts.join("; "), fps.join("; "), cbool(f3), cbool(rel_ok)
    );
    if let Outcome::Ok(l) = &out.list {
        tags.push(format!("listed:{}", l.len().min(5)));
        tags.push(format!("modified:{}", l.iter().filter(|b| b.modified).count().min(4)));
    } else {
        tags.push("outcome:error".into());
    }
    if let Outcome::Ok((ds, _)) = &out.run {
        tags.push(format!("affects-diags:{}", ds.iter().filter(|d| d.code == "affects").count().min(4)));
    }
    let key = format!("{}|{}", diff_text, files.iter().map(|f| f.rendered.text.as_str()).collect::<Vec<_>>().join("|"));
    CaseOut {
        coq,
        json: json!({"input": spec_json(&spec), "U": u, "blocks": jfacts, "footprints": jfps, "known_f3_lookalike": f3, "relational": rel_json, "implementation": impl_json(&out),
                     "line_changes": match &out.changes { Outcome::Ok(m) => json!(m), _ => json!(null) }}),
        key,
        nontrivial: !diffs.is_empty() && files.iter().any(|f| !f.rendered.blocks.is_empty()),
        tags,
    }
}

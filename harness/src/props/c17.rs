//! C17: concrete escape attempts in every BLOCKWATCH_LUA_MODE through the real
//! binary; outcomes are compared with what the reflected reachability graph
//! predicts and with what the mode must allow.
use crate::cli::{self, CliRun};
use crate::common::*;
use crate::coqw::*;
use crate::prng::Rng;
use crate::props::mix;
use crate::reflect::LUA_MODES;
use serde_json::json;

pub const HEADER: &str = "From BW Require Import Case SpecLua.\nFrom BWGen Require Import LuaGraph.";

pub fn generate(rng: &mut Rng, idx: usize, _tier: Tier) -> CaseOut {
    let d = mix::scripts_dir();
    let (mname, mode) = LUA_MODES[idx % LUA_MODES.len()];
    // further spellings that must behave like the default
    let mode: Option<String> = match (mname, idx / LUA_MODES.len() % 3) {
        ("garbage", 0) => Some("SAFE".into()),
        ("garbage", 1) => Some("".into()),
        ("garbage", _) => Some(" unsafe".into()),
        _ => mode.map(|s| s.to_string()),
    };
    let cls = match mname { "safe" => 1, "unsafe" => 2, _ => 0 };
    let (opener, path) = [("#", "p.py"), ("//", "src/q.rs"), ("--", "d/r.sql")][rng.below(3)];
    let text = format!("{opener} <block name=\"probe\" check-lua=\"{d}/escape.lua\">\n{d}/side.lua\n{opener} </block>\n");
    let mut env = vec![];
    if let Some(m) = &mode {
        env.push(("BLOCKWATCH_LUA_MODE".to_string(), m.clone()));
    }
    let c = cli::run(&CliRun { files: vec![(path.to_string(), text.clone())], env, ..Default::default() });
    let (obs, _) = cli::interpret_run(&c);
    let msg = match &obs {
        crate::imp::Outcome::Ok((ds, _)) => ds.iter().find(|d| d.code == "check-lua").and_then(|d| d.data.get(1).cloned()).unwrap_or_default(),
        _ => String::new(),
    };
    let outcomes: Vec<(String, bool)> = msg.split(';').filter_map(|kv| kv.split_once('=')).map(|(k, v)| (k.to_string(), v == "ok")).collect();
    let coq = if outcomes.is_empty() {
        "3".to_string()
    } else {
        format!("(check_escape2 graph_{mname} graph_{mname}_top {cls} [{}])", outcomes.iter().map(|(k, v)| format!("({}, {})", cstr(k), cbool(*v))).collect::<Vec<_>>().join("; "))
    };
    CaseOut {
        coq,
        json: json!({"mode": mode, "mode_class": mname, "file": {"path": path, "text": text}, "outcomes": outcomes.iter().map(|(k, v)| format!("{k}={}", if *v { "ok" } else { "blocked" })).collect::<Vec<_>>(), "cli": {"exit": c.code, "stderr_head": c.stderr.chars().take(300).collect::<String>()}}),
        key: format!("{mode:?}|{path}"),
        nontrivial: !outcomes.is_empty(),
        tags: vec![format!("mode:{mname}"), format!("attempts:{}", outcomes.len()), format!("succeeded:{}", outcomes.iter().filter(|o| o.1).count())],
    }
}

//! C15 (files in scope: globs, --ignore, diff paths, hidden / git-ignored files,
//! start directory) through the real binary on real directory trees, and
//! C16 (grammar by file name, -E mappings) in-process and through the binary.
use crate::cli::{self, CliRun};
use crate::common::*;
use crate::coqw::*;
use crate::diffgen::*;
use crate::emit::{self, Tables};
use crate::filegen::*;
use crate::imp::{self, Outcome, RunSpec};
use crate::mainargs::{self, MainArgs};
use crate::prng::Rng;
use serde_json::json;

pub const HEADER: &str = "From BW Require Import SpecRun Main.";

struct TFile {
    path: String,
    lang: &'static Lang,
    text: String,
    blocks: Vec<ExpBlock>,
    hidden: bool,      // dot file or under a dot directory
    gitignored: bool,  // matched by the tree's .gitignore
    poisoned: bool,    // unbalanced tags: examining it fails the run
}

fn one_block_file(lang: &'static Lang, rng: &mut Rng, name: &str, poisoned: bool) -> (String, Vec<ExpBlock>) {
    let mut nodes = vec![GNode::Text(lang.code[0].to_string())];
    let n = rng.range(1, 2);
    for k in 0..n {
        let nm = format!("{name}{k}");
        nodes.push(simple_block(lang, rng, TagSrc::simple(&[("name", nm.as_str())]), &[lang.wrap_token("v")]));
    }
    let r = render(&FileSpec { lang, nodes, crlf: false, final_newline: true });
    if poisoned {
        // an end tag with no open block: a hard error if the file is ever examined
        let mut t = r.text.clone();
        let p = Place { form: if lang.line.is_empty() { Form::BlockOne } else { Form::Line(0) }, ..Place::line() };
        let extra = render(&FileSpec { lang, nodes: vec![GNode::Note(Place { post: if lang.line.is_empty() { " ".into() } else { String::new() }, ..p }, "</block>".into())], crlf: false, final_newline: true });
        t.push_str(&extra.text[lang.prelude.len()..]);
        (t, vec![])
    } else {
        (r.text, r.blocks)
    }
}

fn whole_file_diff(path: &str, text: &str, rng: &mut Rng) -> String {
    let (lines, nl) = split_lines(text);
    let n = lines.len();
    let fd = FileDiff { path: path.to_string(), old_path: None, old_lines: vec![], new_lines: lines, groups: vec![Group { t: 1, added: n, deleted: vec![] }], old_final_nl: true, new_final_nl: nl, new_file: true, deleted_file: false };
    render_file(&fd, 3, rng)
}

const DIRS: [&str; 8] = ["", "src/", "a/", "b/", "a/b/", "docs/my notes/", "pkg.v2/", "src/deep/er/"];
const TLANGS: [&str; 5] = ["python", "rust", "js", "c", "bash"];

pub fn generate_c15(rng: &mut Rng, idx: usize, _tier: Tier) -> CaseOut {
    // ---- the tree ----
    let nfiles = rng.range(3, 7);
    let mut files: Vec<TFile> = Vec::new();
    let gitignore_pat = ["build/", "*.gen.py", "secret.rs"][rng.below(3)];
    for k in 0..nfiles {
        let lang = lang(TLANGS[rng.below(TLANGS.len())]);
        let mut dir = DIRS[rng.below(DIRS.len())].to_string();
        let mut base = format!("f{k}");
        let mut hidden = false;
        let mut gitignored = false;
        match rng.below(10) {
            0 => { base = format!(".h{k}"); hidden = true; }
            1 => { dir = format!(".cfg/{dir}"); hidden = true; }
            2 => {
                gitignored = true;
                match gitignore_pat {
                    "build/" => dir = format!("build/{dir}"),
                    "*.gen.py" => base = format!("g{k}.gen"),
                    _ => base = "secret".into(),
                }
            }
            _ => {}
        }
        let lang = if gitignored && gitignore_pat == "*.gen.py" { crate::filegen::lang("python") } else if gitignored && gitignore_pat == "secret.rs" { crate::filegen::lang("rust") } else { lang };
        let path = format!("{dir}{base}.{}", lang.suffixes[0]);
        if files.iter().any(|f| f.path == path) {
            continue;
        }
        files.push(TFile { path, lang, text: String::new(), blocks: vec![], hidden, gitignored, poisoned: false });
    }
    // ---- globs ----
    let forms = |rng: &mut Rng, files: &[TFile]| -> String {
        let f = &files[rng.below(files.len())];
        let ext = f.path.rsplit('.').next().unwrap_or("py").to_string();
        let dir = f.path.split('/').next().unwrap_or("src").to_string();
        let name = f.path.rsplit('/').next().unwrap_or("x").to_string();
        // (forms 6 and 7 match a DIRECTORY's path, not the files below it: --ignore globs are matched
        // against file paths, so as ignore globs they exclude nothing)
        let parent = f.path.rfind('/').map(|i| f.path[..i].to_string());
        match rng.below(8) {
            0 => format!("*.{ext}"),
            1 => format!("**/*.{ext}"),
            2 if f.path.contains('/') => format!("{dir}/**"),
            3 => format!("**/{name}"),
            4 => f.path.clone(),
            6 if parent.is_some() => format!("**/{}", parent.as_deref().unwrap().rsplit('/').next().unwrap()),
            7 if parent.is_some() => parent.unwrap(),
            _ => "**".to_string(),
        }
    };
    let nglobs = if idx % 5 == 0 { 0 } else { rng.range(1, 3) };
    let globs: Vec<String> = (0..nglobs).map(|_| forms(rng, &files)).collect();
    let ignores: Vec<String> = (0..rng.below(3)).map(|_| forms(rng, &files)).filter(|g| g != "**").collect();
    let with_diff = idx % 2 == 1;
    let terminal = !with_diff;
    // what the property says is in scope (the specification side): no globs in terminal mode = everything
    let eff_globs: Vec<String> = if globs.is_empty() && terminal { vec!["**".into()] } else { globs.clone() };
    let allow = imp::globset(&eff_globs).unwrap();
    // what globset says about the globs as typed (the model's oracle; main.rs decides about "**" itself)
    let typed_allow = imp::globset(&globs).unwrap();
    let ign = imp::globset(&ignores).unwrap();
    // every twelfth case must be refused before any file is looked at: outside a repository, or a bad glob
    let refuse = match idx % 24 { 11 => 1, 23 => 2, _ => 0 };
    // which files does the diff name
    let in_diff: Vec<bool> = files.iter().map(|_| with_diff && rng.chance(1, 2)).collect();
    let scan = !eff_globs.is_empty();
    // files out of scope are poisoned: examining them would fail the run
    let mut exp: Vec<String> = Vec::new();
    let mut in_scope_count = 0;
    for (k, f) in files.iter_mut().enumerate() {
        let walked = !f.hidden && !f.gitignored;
        let scanned = scan && walked && allow.is_match(&f.path) && !ign.is_match(&f.path);
        let by_diff = in_diff[k] && !ign.is_match(&f.path);
        let scope = scanned || by_diff;
        f.poisoned = !scope;
        let (text, blocks) = one_block_file(f.lang, rng, &format!("t{k}"), f.poisoned);
        f.text = text;
        f.blocks = blocks;
        if scope {
            in_scope_count += 1;
            for b in &f.blocks {
                let name = b.attrs.iter().find(|(k, _)| k == "name").map(|(_, v)| v.clone()).unwrap_or_default();
                exp.push(format!("({}, mklblock {} {} {} {} {})", cstr(&f.path), cstr(&name), b.ts.0, b.ts.1, cbool(in_diff[k]), emit::attrs(&b.attrs)));
            }
        }
    }
    let mut diff = String::new();
    for (k, f) in files.iter().enumerate() {
        if in_diff[k] {
            diff.push_str(&whole_file_diff(&f.path, &f.text, rng));
        }
    }
    // ---- the run: `list` through the real binary ----
    let mut tree: Vec<(String, String)> = files.iter().map(|f| (f.path.clone(), f.text.clone())).collect();
    tree.push((".gitignore".into(), format!("{gitignore_pat}\n")));
    let subdirs: Vec<String> = files.iter().filter(|f| !f.hidden).filter_map(|f| f.path.rfind('/').map(|i| f.path[..i].to_string())).collect();
    let cwd = if !subdirs.is_empty() && rng.chance(1, 3) { subdirs[rng.below(subdirs.len())].clone() } else { String::new() };
    let mut margs = MainArgs { list: true, ..Default::default() };
    // --ignore may be typed before or after the subcommand (F12: typed on both sides, the earlier ones are dropped)
    for g in &ignores {
        if rng.chance(2, 3) { margs.ignores.push(g.clone()) } else { margs.ign_post.push(g.clone()) }
    }
    // (positional globs can only follow the subcommand: typed before it, `list` itself would be read as a glob)
    margs.list_globs = globs.clone();
    if refuse == 2 {
        let bad = ["[", "a{b", "**[!"][rng.below(3)].to_string();
        // (a bad --ignore glob goes where main will see it)
        if rng.chance(1, 2) { if margs.ign_post.is_empty() { margs.ignores.push(bad) } else { margs.ign_post.push(bad) } } else { margs.list_globs.push(bad) }
    }
    let args = margs.argv(rng);
    let stdin = if with_diff { Some(diff.clone()) } else { None };
    let run = CliRun { files: tree.clone(), args: args.clone(), stdin: stdin.clone(), cwd: cwd.clone(), no_root: refuse == 1, ..Default::default() };
    let c = cli::run(&run);
    // ---- the model's case ----
    // (globset's verdicts on the --ignore globs of each side; bad globs are left out: the run stops before matching)
    let good = |v: &Vec<String>| -> Vec<String> { v.iter().filter(|g| globset::Glob::new(g).is_ok()).cloned().collect() };
    let ign_pre = imp::globset(&good(&margs.ignores)).unwrap();
    let ign_post = imp::globset(&good(&margs.ign_post)).unwrap();
    let spec = RunSpec { files: files.iter().map(|f| (f.path.clone(), f.text.clone())).collect(), ..Default::default() };
    let (_, comments, _) = fcases(&spec);
    let rfiles: Vec<String> = files.iter().enumerate().map(|(k, f)| {
        let fam = family_of_path(&f.path, &[]);
        let spans: Vec<String> = comments[k].iter().map(|cm| {
            let raw = f.text.get(cm.lo..cm.hi).unwrap_or("");
            format!("mkspan {} {} {} {}", cm.lo, cm.hi, fam.map(|x| kind_of(x, raw, cm.group)).unwrap_or(K_RAW), cm.group)
        }).collect();
        format!("(mkmfile {} {} [{}] {} true {} {} {})", cstr(&f.path), cstr(&f.text), spans.join("; "), cbool(!f.hidden && !f.gitignored), cbool(typed_allow.is_match(&f.path)), cbool(ign_pre.is_match(&f.path)), cbool(ign_post.is_match(&f.path)))
    }).collect();
    let coq = format!(
        "(check_scope_main {} [{}] {} [] {} {} true)",
        margs.coq(&stdin, refuse != 1), rfiles.join("; "), Tables::default().coq(), mainargs::mobs_coq(&c, true),
        if refuse != 0 { "None".to_string() } else { format!("(Some [{}])", exp.join("; ")) }
    );
    let mut tags = vec![mainargs::outcome_tag(&c, true), format!("ignore-split:{}", !margs.ignores.is_empty() && !margs.ign_post.is_empty()), format!("globs:{}", globs.len()), format!("ignores:{}", ignores.len()), format!("diff:{with_diff}"), format!("in-scope:{in_scope_count}"), format!("cwd-sub:{}", !cwd.is_empty())];
    tags.push(format!("hidden-or-gitignored:{}", files.iter().filter(|f| f.hidden || f.gitignored).count()));
    if files.iter().any(|f| f.path.starts_with("b/")) {
        tags.push("dir-b".into());
    }
    CaseOut {
        coq,
        json: json!({"tree": tree.iter().map(|(p, t)| json!({"path": p, "text": t})).collect::<Vec<_>>(), "args": args, "cwd": cwd, "diff": if with_diff { Some(diff.clone()) } else { None },
                     "cli": {"exit": c.code, "stdout": c.stdout, "stderr": c.stderr}}),
        key: format!("{:?}|{:?}|{}|{}", args, cwd, diff, tree.iter().map(|(p, _)| p.as_str()).collect::<Vec<_>>().join(",")),
        nontrivial: files.iter().any(|f| f.poisoned) && in_scope_count > 0,
        tags,
    }
}

pub fn generate_c16(rng: &mut Rng, idx: usize, _tier: Tier) -> CaseOut {
    let all_langs: Vec<&'static Lang> = LANGS.iter().chain(std::iter::once(&MARKDOWN)).collect();
    let all_suffixes: Vec<(&'static str, &'static Lang)> = all_langs.iter().flat_map(|l| l.suffixes.iter().map(move |s| (*s, *l))).collect();
    let (suffix, lang) = all_suffixes[idx % all_suffixes.len()];
    let shape = (idx / all_suffixes.len()) % 8;
    let dir = ["", "src/", "a.b/", "x.rs/", "deep/er.py/"][rng.below(5)];
    let whole_name = !suffix.contains('.') && (suffix == "Makefile" || suffix == "makefile");
    let compound = suffix.contains('.');
    // (file name, extra -E mappings, resolves?)
    let mut ext: Vec<(String, String)> = Vec::new();
    let upper = suffix.to_uppercase();
    let (name, resolves): (String, bool) = match shape {
        0 => (if whole_name || compound && rng.chance(1, 2) { suffix.to_string() } else { format!("x.{suffix}") }, true),
        1 => (format!("x.y.{suffix}"), true),
        2 => (format!(".x.{suffix}"), true),
        3 => (format!("x.{suffix}.bak"), false),
        4 => (format!("x.{upper}"), upper == suffix),
        5 => {
            // -E maps an unregistered extension onto this suffix
            ext.push(("zzz".into(), suffix.to_string()));
            ("x.zzz".to_string(), true)
        }
        6 => {
            // -E for the upper-case variant
            ext.push((upper.clone(), suffix.to_string()));
            (format!("x.{upper}"), true)
        }
        7 if idx % 2 == 0 => {
            // -E maps a REGISTERED suffix onto a different grammar: the mapping wins
            let other = all_suffixes[(idx / 16 * 7 + 3) % all_suffixes.len()].0;
            ext.push((suffix.to_string(), other.to_string()));
            (if whole_name || compound { suffix.to_string() } else { format!("x.{suffix}") }, true)
        }
        _ => (format!("x{suffix}"), false), // no dot: the suffix is just the tail of a longer name
    };
    // a longer name whose tail happens to be registered on its own (e.g. "xc" is not, but "xgo.mod" ends with ".mod")
    let path = format!("{dir}{name}");
    let expected_family = family_of_path(&path, &ext);
    let resolves = resolves && expected_family.is_some() || expected_family.is_some();
    let (text, blocks) = if expected_family.is_some() {
        // content in the comment syntax of the grammar the name selects
        let fam = expected_family.unwrap();
        // the language whose grammar the (possibly remapped) suffix selects
        let target = ext.first().map(|(_, v)| v.as_str()).unwrap_or(suffix);
        let l2: &'static Lang = all_suffixes.iter().find(|(s, _)| *s == target).map(|(_, l)| *l)
            .filter(|l| l.family == fam)
            .unwrap_or_else(|| if fam == lang.family { lang } else { all_langs.iter().find(|l| l.family == fam).copied().unwrap_or(lang) });
        one_block_file(l2, rng, "n", false)
    } else {
        // skipped silently whatever it contains: unbalanced tags in every comment syntax
        ("# </block>\n// </block>\n/* </block> */\n<!-- </block> -->\n".to_string(), vec![])
    };
    let via_diff = shape == 2 || rng.chance(1, 4);
    // a sibling in the same run whose name ends in the same last dot-suffix but is looked up on its own
    // (go.mod beside deps.mod, x.d.ts beside y.ts, x.py.bak beside y.bak): each file's grammar depends on
    // its own name only
    let mut sibling: Option<(String, String, Vec<ExpBlock>, Option<Family>)> = None;
    if !via_diff && idx % 10 != 9 && rng.chance(1, 3) {
        if let Some(last) = name.rsplit('.').next().filter(|l| *l != name) {
            let sname = format!("{dir}sib{}.{last}", idx % 7);
            if sname != path {
                let sfam = family_of_path(&sname, &ext);
                let (stext, sblocks) = match sfam {
                    Some(f) => {
                        // content in the syntax of the grammar that will parse it (the -E target, else the suffix itself)
                        let starget = ext.iter().rev().find(|(k, _)| k == last).map(|(_, v)| v.as_str()).unwrap_or(last);
                        let sl: &'static Lang = all_suffixes.iter().find(|(s, _)| *s == starget).map(|(_, l)| *l).filter(|l| l.family == f)
                            .unwrap_or_else(|| all_langs.iter().find(|l| l.family == f).copied().unwrap_or(lang));
                        one_block_file(sl, rng, "s", false)
                    }
                    None => ("# </block>\n// </block>\n/* </block> */\n<!-- </block> -->\n".to_string(), vec![]),
                };
                sibling = Some((sname, stext, sblocks, sfam));
            }
        }
    }
    let mut run_files = vec![(path.clone(), text.clone())];
    if let Some((sp, st, _, _)) = &sibling {
        // either order of discovery
        if rng.chance(1, 2) { run_files.push((sp.clone(), st.clone())) } else { run_files.insert(0, (sp.clone(), st.clone())) }
    }
    let spec = RunSpec {
        files: run_files.clone(),
        globs: if via_diff { vec![] } else { vec!["**".into()] },
        diff: if via_diff { Some(whole_file_diff(&path, &text, rng)) } else { None },
        ext: ext.clone(),
        ..Default::default()
    };
    let out = imp::run(&spec);
    let (_, comments, _) = fcases(&spec);
    let main_at = run_files.iter().position(|(p, _)| *p == path).unwrap();
    let spans: Vec<String> = comments[main_at].iter().map(|cm| {
        let raw = text.get(cm.lo..cm.hi).unwrap_or("");
        format!("mkspan {} {} {} {}", cm.lo, cm.hi, expected_family.map(|x| kind_of(x, raw, cm.group)).unwrap_or(K_RAW), cm.group)
    }).collect();
    let rfiles_coq: Vec<String> = run_files.iter().enumerate().map(|(k, (p, t))| {
        let sp: Vec<String> = comments[k].iter().map(|cm| format!("mkspan {} {} 0 {}", cm.lo, cm.hi, cm.group)).collect();
        format!("(mkrfile {} {} [{}] true true false)", cstr(p), cstr(t), if k == main_at { spans.join("; ") } else { sp.join("; ") })
    }).collect();
    let rcase = format!(
        "(mkrcase [{}] {} {} {} [] [] {} [])",
        rfiles_coq.join("; "), copt(&spec.diff, |d| cstr(d)), cbool(!via_diff),
        clist(&ext, |(k, v)| cpair(cstr(k), cstr(v))), Tables::default().coq()
    );
    let mut exp: Vec<String> = blocks.iter().map(|b| {
        let name = b.attrs.iter().find(|(k, _)| k == "name").map(|(_, v)| v.clone()).unwrap_or_default();
        format!("({}, mklblock {} {} {} {} {})", cstr(&path), cstr(&name), b.ts.0, b.ts.1, cbool(via_diff), emit::attrs(&b.attrs))
    }).collect();
    if let Some((sp, _, sblocks, _)) = &sibling {
        for b in sblocks {
            let name = b.attrs.iter().find(|(k, _)| k == "name").map(|(_, v)| v.clone()).unwrap_or_default();
            exp.push(format!("({}, mklblock {} {} {} false {})", cstr(sp), cstr(&name), b.ts.0, b.ts.1, emit::attrs(&b.attrs)));
        }
    }
    let mut tags = vec![format!("sibling:{}", match &sibling { Some((_, _, _, Some(_))) => "resolves", Some(_) => "skipped", None => "none" }), format!("suffix:{suffix}"), format!("shape:{shape}"), format!("resolves:{resolves}"), format!("via-diff:{via_diff}")];
    // a -E mapping onto an unsupported grammar is rejected up front (real binary)
    let mut extra = true;
    let mut main_extra: Option<String> = None;
    let mut cli_json = json!(null);
    if idx % 10 == 9 {
        let bad = ["nosuch", "PY", "", "py "][rng.below(4)];
        let c = cli::run(&CliRun { files: vec![(path.clone(), text.clone())], args: vec!["-E".into(), format!("qq={bad}")], ..Default::default() });
        // "py " is trimmed by the flag parser and therefore accepted
        let want_reject = bad != "py ";
        // a refusal, whatever its wording: exit status 1, an `Error: ...` line instead of a report, nothing on stdout
        let refused = c.code == Some(1) && c.stderr.starts_with("Error:") && c.stdout.is_empty();
        extra = if want_reject { refused } else { !refused && (c.code == Some(0) || c.code == Some(1)) };
        // and the model of main.rs / flags.rs must predict the same outcome
        let m = MainArgs { ext_raw: vec![format!("qq={bad}")], ..Default::default() };
        main_extra = Some(format!(
            "(check_main {} [(mkmfile {} {} [{}] true true false false false)] {} [] {} true)",
            m.coq(&None, true), cstr(&path), cstr(&text), spans.join("; "), Tables::default().coq(), mainargs::mobs_coq(&c, false)
        ));
        tags.push(format!("bad-mapping:{bad:?}"));
        cli_json = json!({"args": ["-E", format!("qq={bad}")], "exit": c.code, "stderr": c.stderr});
    }
    let mut coq = format!("(check_scope {} {} (Some [{}]) {})", rcase, emit::lobs(&out.list), exp.join("; "), cbool(extra));
    if let Some(me) = &main_extra {
        coq = format!("(both_verdicts {coq} {me})");
    }
    if let Outcome::Err(_, _) = &out.list {
        tags.push("outcome:error".into());
    }
    if idx % 3 == 1 && idx % 10 != 9 {
        // the same question through the real binary and the model of main.rs / flags.rs: -E values as typed
        // (padding, a superseded earlier mapping of the same key), on either side of `list`
        let mut m = MainArgs { list: true, ..Default::default() };
        let post_side = rng.chance(1, 2);
        let mut typed: Vec<String> = Vec::new();
        for (k, v) in &ext {
            if rng.chance(1, 3) {
                // superseded: the later mapping of a key wins
                let other = all_suffixes[rng.below(all_suffixes.len())].0;
                typed.push(format!("{k}={other}"));
            }
            typed.push(match rng.below(3) { 0 => format!("{k}={v}"), 1 => format!(" {k} = {v} "), _ => format!("{k}=\t{v}") });
        }
        if post_side { m.ext_post = typed } else { m.ext_raw = typed }
        let mut split = false;
        // (only for unregistered keys: with the mapping dropped the file is then not parsed at all, and the
        // comment spans recorded under the intended grammar play no part)
        if !ext.is_empty() && ext.iter().all(|(k, _)| !all_suffixes.iter().any(|(s, _)| s == k)) && rng.chance(1, 3) {
            // an unrelated mapping on the other side of the subcommand (F12 when the needed one is typed first)
            let unrelated = "unrelated=py".to_string();
            if post_side { m.ext_raw.push(unrelated) } else { m.ext_post.push(unrelated) }
            split = true;
        }
        let args = m.argv(rng);
        let c = cli::run(&CliRun { files: run_files.clone(), args: args.clone(), stdin: spec.diff.clone(), ..Default::default() });
        let mfiles: Vec<String> = rfiles_coq.iter().map(|r| {
            let body = r.strip_prefix("(mkrfile ").and_then(|x| x.strip_suffix(" true true false)")).expect("rfile shape");
            format!("(mkmfile {body} true true false false false)")
        }).collect();
        coq = format!(
            "(check_scope_main {} [{}] {} [] {} (Some [{}]) true)",
            m.coq(&spec.diff, true), mfiles.join("; "), Tables::default().coq(), mainargs::mobs_coq(&c, true), exp.join("; ")
        );
        tags.push("via:cli".into());
        tags.push(format!("ext-split:{split}"));
        tags.push(mainargs::outcome_tag(&c, true));
        cli_json = json!({"args": args, "exit": c.code, "stdout": c.stdout, "stderr": c.stderr});
    }
    CaseOut {
        coq,
        json: json!({"input": spec_json(&spec), "expected_family": format!("{:?}", expected_family), "implementation": impl_json(&out), "cli": cli_json}),
        key: format!("{path}|{:?}|{via_diff}", ext),
        nontrivial: true,
        tags,
    }
}

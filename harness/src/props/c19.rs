//! C19: check-ai through the real binary against a loopback endpoint: one
//! faithful request per block, the reply decides, every fault fails the run.
use crate::cli::{self, CliRun};
use crate::common::*;
use crate::coqw::*;
use crate::emit::{self, Tables};
use crate::fakeai::{Behavior, FakeAi};
use crate::filegen::*;
use crate::imp::{Outcome, RunSpec};
use crate::prng::Rng;
use crate::props::mix;
use serde_json::json;
use std::collections::BTreeMap;

pub const HEADER: &str = "From BW Require Import SpecRun.";

const CONDS: [&str; 6] = ["must mention banana", "no TODO left; keep it \"short\"", "sorted & unique <tags>", "ends with a\\backslash", "  padded condition  ", "Unicode: é 日本 🙂 ok"];
const CONTENTS: [&str; 8] = ["plain text", "two\nlines here", "  padded  ", "é ü 日本 🙂", "quo\"te and 'single' and \\ back", "tab\there {json: [1, 2]}", "id=alpha rest", "a < b && c > d"];
const REPLIES: [&str; 10] = ["OK", "ok", "Ok.", "oK.", "OK!", " OK", "Not OK: add a banana.", "okay", "", "Line one\nline \"two\""];

pub fn generate(rng: &mut Rng, idx: usize, _tier: Tier) -> CaseOut {
    // every sixth case has more blocks than any plausible cap on concurrent requests
    let nblocks = if idx % 6 == 5 { rng.range(9, 40) } else { rng.range(1, 5) };
    let lang = lang(["python", "js", "rust"][idx % 3]);
    let fault_kind = idx % 12; // 0..=7 one fault injected on one request; others: all requests answered
    let fault_at = rng.below(nblocks);
    let no_key = fault_kind == 7;
    let refused = fault_kind == 6;
    let mut nodes = Vec::new();
    let mut plans: Vec<(String, String, Option<String>, Behavior)> = Vec::new(); // cond, content, pattern, behaviour
    let mut used: BTreeMap<(String, String), ()> = BTreeMap::new();
    for b in 0..nblocks {
        // distinct (condition, content) pairs so that requests can be told apart
        let (cond, content) = loop {
            // the condition is unique per block: two requests are never textually identical
            let c = (format!("{} ({b})", CONDS[rng.below(CONDS.len())]), format!("{} #{b}", CONTENTS[rng.below(CONTENTS.len())]));
            if used.insert(c.clone(), ()).is_none() {
                break c;
            }
        };
        // patterns whose match depends on the untrimmed content (leading newline / indentation / trailing newline)
        let pattern = match rng.below(8) {
            0 => Some("id=(?P<value>[a-z]+)".to_string()),
            1 => Some("^\\s+(?P<value>\\S+)".to_string()),
            2 => Some("(?s)^\\n.*\\n$".to_string()),
            3 => Some("[a-z]+\\s*$".to_string()),
            _ => None,
        };
        let beh = if b == fault_at && fault_kind <= 5 {
            match fault_kind {
                0 => Behavior::Status([400u16, 401, 404][rng.below(3)], true),
                1 => Behavior::Status([400u16, 401, 404][rng.below(3)], false),
                2 => Behavior::InvalidJson,
                3 => Behavior::NoChoices,
                4 => Behavior::NullContent,
                _ => Behavior::CloseMidBody,
            }
        } else {
            Behavior::Reply(REPLIES[rng.below(REPLIES.len())].to_string())
        };
        let mut attrs: Vec<(String, String)> = vec![("name".into(), format!("a{b}")), ("check-ai".into(), cond.clone())];
        if let Some(p) = &pattern {
            attrs.push(("check-ai-pattern".into(), p.clone()));
        }
        if rng.chance(1, 4) {
            attrs.push(("severity".into(), SEVERITIES[rng.below(SEVERITIES.len())].to_string()));
        }
        let aref: Vec<(&str, &str)> = attrs.iter().map(|(k, v)| (k.as_str(), v.as_str())).collect();
        let lines: Vec<String> = content.split('\n').map(|s| s.to_string()).collect();
        nodes.push(simple_block(lang, rng, TagSrc::simple(&aref), &lines));
        nodes.push(GNode::Text(lang.code[0].to_string()));
        plans.push((cond, content, pattern, beh));
    }
    // every fourth case: check-lua blocks in the same file (the two asynchronous validators report on one file)
    let nlua = if idx % 4 == 2 { rng.range(1, 2) } else { 0 };
    let echo = format!("{}/echo.lua", mix::scripts_dir());
    for k in 0..nlua {
        let nm = format!("l{k}");
        let aref: Vec<(&str, &str)> = vec![("name", nm.as_str()), ("check-lua", echo.as_str())];
        nodes.push(simple_block(lang, rng, TagSrc::simple(&aref), &[format!("lua body {k}")]));
        nodes.push(GNode::Text(lang.code[0].to_string()));
    }
    // fault cases: half of them also carry a warning-level finding of a synchronous rule - the endpoint
    // fault must fail the run all the same
    let with_warning = fault_kind <= 7 && idx % 2 == 0;
    if with_warning {
        let w = lang.wrap_token("dup");
        nodes.push(simple_block(lang, rng, TagSrc::simple(&[("name", "w"), ("keep-unique", ""), ("severity", "warning")]), &[w.clone(), w]));
    }
    let r = render(&FileSpec { lang, nodes, crlf: false, final_newline: true });
    let path = format!("ai/f{}.{}", idx % 4, lang.suffixes[0]);
    let files = vec![(path.clone(), r.text.clone())];
    // what each request must carry, by construction
    let mut tables = Tables::default();
    let mut expected_user: Vec<String> = Vec::new();
    let mut script: Vec<(String, Behavior)> = Vec::new();
    let mut exp: Vec<String> = Vec::new();
    let mut any_fault = no_key || refused;
    for (bi, (cond, _, pattern, beh)) in plans.iter().enumerate() {
        let b = &r.blocks[bi];
        let content = content_of(&r, bi);
        let arg = match pattern {
            Some(p) => {
                tables.add_rx(p, content);
                let re = regex::Regex::new(p).unwrap();
                re.captures(content).map(|c| c.name("value").map(|m| m.as_str().to_string()).unwrap_or_else(|| c.get(0).unwrap().as_str().to_string())).unwrap_or_default()
            }
            None => content.trim().to_string(),
        };
        let user = format!("CONDITION:\n{cond}\n\nBLOCK (formatting preserved):\n{arg}");
        expected_user.push(user.clone());
        script.push((user, beh.clone()));
        let sev = b.attrs.iter().find(|(k, _)| k == "severity").map(|(_, v)| sev_num(v)).unwrap_or(1);
        match beh {
            Behavior::Reply(rep) if !no_key && !refused => {
                tables.ai.insert((cond.clone(), arg.clone()), (0, rep.clone()));
                let passes = rep.eq_ignore_ascii_case("OK") || rep.eq_ignore_ascii_case("OK.");
                if !passes {
                    exp.push(format!("({}, mkdiag {} {} {} {} 5 {} [{}; {}])", cstr(&path), b.ts.0, b.ts.1, b.te.0, b.te.1, sev, cstr(cond.trim()), cstr(rep)));
                }
            }
            _ => {
                any_fault = true;
                tables.ai.insert((cond.clone(), arg.clone()), (2, String::new()));
            }
        }
    }
    for k in 0..nlua {
        let b = &r.blocks[nblocks + k];
        let arg = content_of(&r, nblocks + k).trim().to_string();
        tables.lua.insert((echo.clone(), format!("{}:{}", path, b.ts.0), arg.clone()), (1, arg.clone()));
        exp.push(format!("({}, mkdiag {} {} {} {} 6 1 [{}; {}])", cstr(&path), b.ts.0, b.ts.1, b.te.0, b.te.1, cstr(&echo), cstr(&arg)));
    }
    let script2 = script.clone();
    let server = FakeAi::start(move |user| script2.iter().find(|(u, _)| u == user).map(|(_, b)| b.clone()).unwrap_or(Behavior::Status(418, false)));
    let url = if refused { "http://127.0.0.1:1/v1".to_string() } else { format!("http://127.0.0.1:{}/v1", server.port) };
    let mut env = vec![("BLOCKWATCH_AI_API_URL".to_string(), url), ("BLOCKWATCH_AI_MODEL".to_string(), "model-under-test".to_string())];
    if !no_key {
        env.push(("BLOCKWATCH_AI_API_KEY".into(), "key-123".into()));
    }
    let spec = RunSpec { files: files.clone(), globs: vec!["**".into()], ..Default::default() };
    let c = cli::run(&CliRun { files, env, ..Default::default() });
    server.stop();
    let (obs, _) = cli::interpret_run(&c);
    let reqs = server.requests.lock().unwrap().clone();
    // faithful requests: when nothing fails, exactly one request per block, verbatim condition and content
    let mut got: Vec<String> = reqs.iter().map(|q| q.user.clone()).collect();
    got.sort();
    let mut want = expected_user.clone();
    want.sort();
    let requests_ok = if no_key || refused {
        reqs.is_empty()
    } else if any_fault {
        // a failing request may cut the run short; no request may be sent twice (4xx is not retried) or altered
        got.iter().all(|g| want.contains(g)) && reqs.iter().all(|q| q.body_ok)
    } else {
        got == want
    } && reqs.iter().all(|q| q.path.ends_with("/chat/completions") && q.auth == "Bearer key-123" && q.model == "model-under-test" && !q.system.is_empty());
    let coq = format!(
        "(check_expected {} {} {} {})",
        mix::rcase_coq(&spec, &tables), emit::obs(&obs),
        if any_fault { "None".to_string() } else { format!("(Some [{}])", exp.join("; ")) }, cbool(requests_ok)
    );
    let mut tags = vec![format!("sync-warning:{with_warning}"), format!("lua-blocks:{nlua}"), format!("blocks:{nblocks}"), format!("fault:{}", match fault_kind { 0 => "4xx-json", 1 => "4xx-plain", 2 => "invalid-json", 3 => "no-choices", 4 => "null-content", 5 => "closed-mid-body", 6 => "refused", 7 => "no-key", _ => "none" }), format!("requests:{}", reqs.len().min(6))];
    match &obs {
        Outcome::Ok((ds, _)) => tags.push(format!("diagnostics:{}", ds.len())),
        Outcome::Err(cl, _) => tags.push(format!("error-class:{cl}")),
        Outcome::Panic(_) => tags.push("outcome:panic".into()),
    }
    CaseOut {
        coq,
        json: json!({"input": spec_json(&spec), "plans": plans.iter().map(|(c, t, p, b)| json!([c, t, p, format!("{b:?}")])).collect::<Vec<_>>(), "requests_seen": reqs.iter().map(|q| json!({"path": q.path, "model": q.model, "user": q.user})).collect::<Vec<_>>(),
                     "requests_ok": requests_ok, "cli": {"exit": c.code, "stderr_head": c.stderr.chars().take(500).collect::<String>()}}),
        key: format!("{}|{fault_kind}", r.text),
        nontrivial: true,
        tags,
    }
}

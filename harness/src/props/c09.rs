//! C09 line-count: grid over (operator, bound, actual count, blank placement,
//! content on the tag's line), random large bounds and blocks.
use crate::common::*;
use crate::coqw::*;
use crate::emit::{self, Tables};
use crate::filegen::*;
use crate::imp::{self, RunSpec};
use crate::prng::Rng;
use serde_json::json;

pub const HEADER: &str = "From BW Require Import SpecC09.";
const OPS: [&str; 5] = ["<", "<=", "==", ">=", ">"];
const OPC: [&str; 5] = ["OLt", "OLe", "OEq", "OGe", "OGt"];
const WS: [&str; 8] = ["", " ", "  ", "\t", " \t ", "", "\u{a0}", "\u{2003} "];
const BLANKS: [&str; 5] = ["", " ", "   ", "\t", " \t"];
const WORDS: [&str; 6] = ["k1", "k2", "k3", "z9", "w_w", "q"];
const INDENTS: [&str; 4] = ["", "  ", "\t", " "];
const LANGN: [&str; 12] = ["python", "c", "rust", "java", "html", "sql", "php", "css", "toml", "bash", "ts", "csharp"];

struct Planned {
    op: usize,
    n: u64,
    count: usize,
    sev: Option<&'static str>,
}

fn word(lang: &Lang, rng: &mut Rng) -> String {
    lang.wrap_token(WORDS[rng.below(WORDS.len())])
}

fn body_lines(lang: &Lang, rng: &mut Rng, count: usize, blanks: usize) -> Vec<String> {
    let mut v: Vec<String> = (0..count)
        .map(|_| format!("{}{}{}", rng.pick(&INDENTS), word(lang, rng), if rng.chance(1, 5) { "  " } else { "" }))
        .collect();
    for _ in 0..blanks {
        let at = rng.below(v.len() + 1);
        v.insert(at, rng.pick(&BLANKS).to_string());
    }
    v
}

pub fn generate(rng: &mut Rng, idx: usize, tier: Tier) -> CaseOut {
    let lang = lang(LANGN[idx % LANGN.len()]);
    let grid = idx % 280;
    let nblocks = 1 + rng.below(3);
    let mut nodes = Vec::new();
    let mut planned = Vec::new();
    let mut tags = vec![format!("lang:{}", lang.name)];
    for bi in 0..nblocks {
        let (op, n, count) = if bi == 0 {
            (grid % 5, ((grid / 5) % 7) as u64, grid / 35)
        } else if rng.chance(1, 4) {
            (rng.below(5), rng.next() >> rng.below(64), rng.below(if tier == Tier::Thorough { 40 } else { 12 }))
        } else {
            (rng.below(5), rng.below(7) as u64, rng.below(8))
        };
        let sev = if rng.chance(1, 4) { Some(*rng.pick(SEVERITIES)) } else { None };
        // numeral forms usize::from_str accepts: plain, explicit '+', leading zeros (C09_numeral_shape)
        let numeral = match rng.below(8) { 0 => format!("+{}", n), 1 => format!("00{}", n), 2 => format!("+0{}", n), _ => n.to_string() };
        if !numeral.starts_with(|c: char| c.is_ascii_digit() && c != '0') && numeral != "0" {
            tags.push("numeral:plus-or-zeros".into());
        }
        let expr = format!("{}{}{}{}{}", rng.pick(&WS), OPS[op], rng.pick(&WS), numeral, rng.pick(&WS));
        if !expr.is_ascii() {
            tags.push("unicode-whitespace".into());
        }
        let mut attrs: Vec<(&str, &str)> = vec![("line-count", expr.as_str())];
        let name = format!("b{}", bi);
        if rng.chance(1, 2) {
            attrs.insert(0, ("name", name.as_str()));
        }
        if let Some(s) = sev {
            attrs.push(("severity", s));
        }
        let tag = TagSrc::simple(&attrs);
        let blanks = rng.below(4);
        // content on the tag's own line / on the end tag's line needs bracketed comments
        let on_tag_line = lang.block.is_some() && count > 0 && rng.chance(1, 3);
        let on_end_line = lang.block.is_some() && count > 1 && rng.chance(1, 4);
        let inner = count - on_tag_line as usize - on_end_line as usize;
        let mut body: Vec<GNode> = Vec::new();
        // a nested block's tag lines count like any other line
        let nested = inner >= 2 && rng.chance(1, 4) && !lang.line.is_empty();
        let lines = body_lines(lang, rng, if nested { inner - 2 } else { inner }, blanks);
        if nested {
            let cut = rng.below(lines.len() + 1);
            for l in &lines[..cut] {
                body.push(GNode::Text(l.clone()));
            }
            body.push(GNode::Blk(GBlock { tag: TagSrc::simple(&[("name", "inner")]), start: Place::line(), end: Place::line(), end_tag: "</block>".into(), body: vec![] }));
            for l in &lines[cut..] {
                body.push(GNode::Text(l.clone()));
            }
            tags.push("nested".into());
        } else {
            for l in &lines {
                body.push(GNode::Text(l.clone()));
            }
        }
        let mut start = if on_tag_line || lang.line.is_empty() || rng.chance(1, 5) && lang.block.is_some() { Place::block_one() } else { Place::line() };
        if let Form::Line(_) = start.form {
            start.form = Form::Line(rng.below(4));
        }
        if on_tag_line {
            start.trailing = format!(" {}", word(lang, rng));
            tags.push("content-on-tag-line".into());
        }
        if rng.chance(1, 5) {
            start.indent = "  ".into();
        }
        let mut end = if on_end_line || lang.line.is_empty() { Place::block_one() } else { Place::line() };
        if on_end_line {
            end.indent = format!("{} ", word(lang, rng));
            tags.push("content-on-end-line".into());
        }
        nodes.push(GNode::Blk(GBlock { tag, start, end, end_tag: "</block>".into(), body }));
        if rng.chance(1, 2) {
            nodes.push(GNode::Text(rng.pick(lang.code).to_string()));
        }
        planned.push(Planned { op, n, count, sev });
        tags.push(format!("op:{}", OPS[op]));
        tags.push(format!("count:{}", if count > 7 { "8+".to_string() } else { count.to_string() }));
        tags.push(format!("n:{}", if n > 6 { "big".to_string() } else { n.to_string() }));
    }
    // a third of the files also hold a block on which ANOTHER rule reports (a repeated key under keep-unique):
    // the line-count diagnostics of the file must all still be there
    if rng.chance(1, 3) {
        let w = word(lang, rng);
        nodes.push(simple_block(lang, rng, TagSrc::simple(&[("name", "other"), ("keep-unique", "")]), &[w.clone(), w]));
        tags.push("with-other-rule".into());
    }
    let r = render(&FileSpec { lang, nodes, crlf: rng.chance(1, 6), final_newline: !rng.chance(1, 8) });
    let path = format!("src/f{}.{}", idx % 7, lang.suffixes[rng.below(lang.suffixes.len())]);
    let path = if lang.suffixes[0] == "Makefile" { "Makefile".to_string() } else { path };
    let spec = RunSpec { files: vec![(path.clone(), r.text.clone())], globs: vec!["**".into()], ..Default::default() };
    let out = imp::run(&spec);
    let (fcs, _, _) = fcases(&spec);
    let mut tables = Tables::default();
    // intents: the outer blocks, by construction
    let outer: Vec<usize> = r.blocks.iter().enumerate().filter(|(_, b)| b.depth == 0).map(|(i, _)| i).collect();
    let mut intents = Vec::new();
    let mut jint = Vec::new();
    let mut violating = 0;
    for (k, bi) in outer.iter().enumerate() {
        let b = &r.blocks[*bi];
        let content = content_of(&r, *bi);
        tables.add_block(&b.attrs, content);
        if k >= planned.len() {
            continue; // the block with the other rule
        }
        let p = &planned[k];
        let sev = p.sev.map(sev_num).unwrap_or(1);
        intents.push(format!(
            "({}, mkintent09 {} {} {} {} {} {})",
            cstr(&path), emit::pos(b.ts), emit::pos(b.te), cstr(content), OPC[p.op], p.n, sev
        ));
        let holds = match p.op { 0 => (p.count as u64) < p.n, 1 => (p.count as u64) <= p.n, 2 => p.count as u64 == p.n, 3 => p.count as u64 >= p.n, _ => p.count as u64 > p.n };
        if !holds {
            violating += 1;
        }
        jint.push(json!({"tag_at": [b.ts.0, b.ts.1], "op": OPS[p.op], "bound": p.n, "planned_nonblank_lines": p.count, "expect_violation": !holds}));
    }
    let coq = format!("(check_c09 {} [{}] {} [{}])", tables.coq(), fcs.join("; "), emit::obs(&out.run), intents.join("; "));
    let key = format!("{}|{:?}", r.text, planned.iter().map(|p| (p.op, p.n)).collect::<Vec<_>>());
    tags.push(format!("violating:{}", violating));
    CaseOut {
        coq,
        json: json!({"input": spec_json(&spec), "intents": jint, "implementation": impl_json(&out)}),
        key,
        nontrivial: true,
        tags,
    }
}

//! C10: every diagnostic points at the text it is about - violating blocks in
//! every comment layout x every rule; the oracle slices the file at the
//! reported range.
use crate::common::*;
use crate::coqw::*;
use crate::emit::{self, Tables};
use crate::filegen::*;
use crate::imp::{self, RunSpec};
use crate::prng::Rng;
use crate::props::keys::{self, Plan, Rule};
use crate::props::mix;
use serde_json::json;

pub const HEADER: &str = "From BW Require Import SpecKeys.";

const PERMISSIVE: [&str; 5] = ["bash", "ruby", "js", "html", "markdown"];
const STRICT: [&str; 9] = ["c", "rust", "java", "python", "sql", "php", "css", "go", "csharp"];

fn layout(lang: &Lang, rng: &mut Rng, k: usize) -> Place {
    let can_line = !lang.line.is_empty();
    let can_block = lang.block.is_some();
    let indent = ["", "  ", "\t", "      "][rng.below(4)].to_string();
    // (text before the tag in its comment, incl. `<` that opens no tag: positions must not drift)
    let pre = [" ", "", " see é: ", " 日本 ", " n < 3 and m <= 9 ", " x << 2 <p> ", " a<b < /c "][rng.below(7)].to_string();
    let form = match k % 4 {
        0 if can_line => Form::Line(rng.below(6)),
        1 if can_block => Form::BlockOne,
        2 if can_block => Form::BlockMulti { before: rng.below(3), after: 0, deco: rng.chance(1, 2) && lang.block.map(|b| b.0) == Some("/*") },
        3 if can_block => Form::BlockMulti { before: rng.below(2), after: rng.range(1, 3), deco: rng.chance(1, 2) && lang.block.map(|b| b.0) == Some("/*") },
        _ if can_line => Form::Line(rng.below(6)),
        _ => Form::BlockOne,
    };
    let post = if matches!(form, Form::Line(_)) { String::new() } else { " ".to_string() };
    Place { form, indent, pre, post, trailing: String::new() }
}

pub fn generate(rng: &mut Rng, idx: usize, _tier: Tier) -> CaseOut {
    let permissive = idx % 2 == 0;
    let lang = if permissive { lang(PERMISSIVE[(idx / 2) % PERMISSIVE.len()]) } else { lang(STRICT[(idx / 2) % STRICT.len()]) };
    let md = lang.family == Family::Md;
    let nblocks = rng.range(1, 3);
    let mut nodes = Vec::new();
    let mut kplans: Vec<Option<Plan>> = Vec::new();
    let mut tcodes: Vec<Option<u32>> = Vec::new();
    let mut tags = vec![format!("lang:{}", lang.name)];
    let d = mix::scripts_dir();
    for bi in 0..nblocks {
        let rule = (idx / 3 + bi) % 5; // 0 sorted 1 unique 2 pattern 3 line-count 4 check-lua
        let mut start = layout(lang, rng, idx / 5 + bi);
        let end = if md { Place { form: if matches!(start.form, Form::Line(_)) { Form::Line(0) } else { Form::BlockOne }, ..Place::block_one() } } else if lang.line.is_empty() { Place::block_one() } else { Place::line() };
        let w = |t: &str| if permissive { t.to_string() } else { lang.wrap_token(t) };
        // indentation incl. multi-byte Unicode whitespace (stripped by trim(), several bytes per column)
        let ind = |rng: &mut Rng| if permissive { ["", "  ", "\t", "    ", "\u{a0}", "\u{3000} ", "\u{2003}\u{a0}"][rng.below(7)].to_string() } else { ["", "  ", "\t", "    "][rng.below(4)].to_string() };
        let mut attrs: Vec<(String, String)> = Vec::new();
        if rng.chance(1, 2) {
            attrs.push(("name".into(), format!("b{bi}")));
        }
        let mut lines: Vec<String> = Vec::new();
        let mut plan: Option<Plan> = None;
        let mut tcode: Option<u32> = None;
        let multibyte_keys = permissive && !md && rng.chance(1, 2);
        match rule {
            0 => {
                let (pat, ls): (&str, Vec<String>) = if multibyte_keys {
                    ("id=(?P<value>[a-z]+)", vec![format!("é id=b"), format!("{}日本 id=a x", ind(rng))])
                } else {
                    ("", vec![format!("{}{}", ind(rng), w("b2")), format!("{}{}  ", ind(rng), w("a1"))])
                };
                attrs.push(("keep-sorted".into(), "asc".into()));
                if !pat.is_empty() {
                    attrs.push(("keep-sorted-pattern".into(), pat.into()));
                }
                lines = ls.clone();
                plan = Some(Plan { rule: Rule::Sorted, asc: true, dir_text: "asc".into(), pat: pat.into(), numeric: false, fmt_text: None, lines: ls, sev: None, neutral: false });
            }
            1 => {
                let (pat, ls): (&str, Vec<String>) = if multibyte_keys {
                    ("id=(?P<value>[a-z]+)", vec!["ü id=k".to_string(), format!("{}éé id=k", ind(rng))])
                } else {
                    ("", vec![w("k7"), format!("{}{} ", ind(rng), w("k7"))])
                };
                attrs.push(("keep-unique".into(), pat.into()));
                lines = ls.clone();
                plan = Some(Plan { rule: Rule::Unique, asc: true, dir_text: String::new(), pat: pat.into(), numeric: false, fmt_text: None, lines: ls, sev: None, neutral: false });
            }
            2 => {
                let pat = "^[0-9]+$";
                // the failing line may be the text that shares the start tag's line
                // (after a multi-line comment the text follows the closer, on a later row than the tag)
                let on_tag_line = matches!(start.form, Form::BlockOne | Form::BlockMulti { .. }) && rng.chance(1, 2);
                let ls: Vec<String> = if on_tag_line {
                    start.trailing = format!(" {}", w("x9"));
                    tags.push("key-on-tag-line".into());
                    vec![]
                } else {
                    vec![format!("{}{}", ind(rng), if permissive { "É1 z".to_string() } else { w("y8") })]
                };
                attrs.push(("line-pattern".into(), pat.into()));
                lines = ls.clone();
                let mut all = ls;
                if on_tag_line {
                    all.insert(0, start.trailing.clone());
                }
                plan = Some(Plan { rule: Rule::Pattern, asc: true, dir_text: String::new(), pat: pat.into(), numeric: false, fmt_text: None, lines: all, sev: None, neutral: false });
            }
            3 => {
                attrs.push(("line-count".into(), "<0".into()));
                lines = vec![w("v1")];
                tcode = Some(4);
            }
            _ => {
                attrs.push(("check-lua".into(), format!("{d}/echo.lua")));
                lines = vec![w("v2")];
                tcode = Some(6);
            }
        }
        // multi-line tags: attributes separated by line breaks inside a multi-line comment
        let mut tag = {
            let aref: Vec<(&str, &str)> = attrs.iter().map(|(k, v)| (k.as_str(), v.as_str())).collect();
            TagSrc::simple(&aref)
        };
        if let Form::BlockMulti { deco, .. } = start.form {
            if rng.chance(1, 2) && tag.attrs.len() >= 2 && !md {
                let k = 1 + rng.below(tag.attrs.len() - 1);
                tag.attrs[k].ws = if deco { format!("\n{} * ", start.indent) } else { format!("\n{}   ", start.indent) };
                tags.push("multi-line-tag".into());
            }
        }
        tags.push(format!("rule:{}", ["sorted", "unique", "pattern", "count", "lua"][rule]));
        tags.push(format!("layout:{}", match start.form { Form::Line(_) => "line", Form::BlockOne => "block-one", Form::BlockMulti { after: 0, .. } => "tag-on-last-line", Form::BlockMulti { .. } => "comment-continues" }));
        let blk = GBlock { tag, start, end, end_tag: "</block>".into(), body: lines.into_iter().map(GNode::Text).collect() };
        if md && matches!(blk.start.form, Form::BlockOne | Form::BlockMulti { .. }) && matches!(blk.end.form, Form::BlockOne) && rng.chance(1, 2) {
            tags.push("md-list-item".into());
            nodes.push(GNode::MdListItem(vec![GNode::Blk(blk)]));
        } else {
            nodes.push(GNode::Blk(blk));
        }
        nodes.push(GNode::Text(lang.code[rng.below(lang.code.len())].to_string()));
        kplans.push(plan);
        tcodes.push(tcode);
    }
    let r = render(&FileSpec { lang, nodes, crlf: false, final_newline: true });
    let path = format!("src/r{}.{}", idx % 3, lang.suffixes[rng.below(lang.suffixes.len())]);
    let spec = RunSpec { files: vec![(path.clone(), r.text.clone())], globs: vec!["**".into()], ..Default::default() };
    let out = imp::run(&spec);
    let (fcs, _, _) = fcases(&spec);
    let mut tables = Tables::default();
    let mut ks = Vec::new();
    let mut ts = Vec::new();
    for (k, b) in r.blocks.iter().enumerate() {
        let content = content_of(&r, k);
        tables.add_block(&b.attrs, content);
        mix::lua_oracle(&mut tables, &b.attrs, &path, b.ts.0, content);
        if let Some(p) = &kplans[k] {
            ks.push(keys::intent_coq(p, b, content));
        }
        if let Some(c) = tcodes[k] {
            ts.push(format!("(mkintentT {} {} {})", emit::pos(b.ts), emit::pos(b.te), c));
        }
    }
    let coq = format!("(check_ranges {} {} {} [{}] [{}])", tables.coq(), fcs[0], emit::obs(&out.run), ks.join("; "), ts.join("; "));
    CaseOut {
        coq,
        json: json!({"input": spec_json(&spec), "blocks": r.blocks.iter().map(|b| json!({"tag_from": [b.ts.0, b.ts.1], "tag_to": [b.te.0, b.te.1], "content_starts": [b.cs.0, b.cs.1]})).collect::<Vec<_>>(), "implementation": impl_json(&out)}),
        key: r.text.clone(),
        nontrivial: true,
        tags,
    }
}

//! C11 / C13 / C14 / C20: repositories whose blocks carry several rules each
//! (violated or not, with severities), run in-process and through the real
//! binary, with flags, malformations and execution variants.
use crate::cli::{self, CliRun};
use crate::common::*;
use crate::coqw::*;
use crate::emit::{self, Tables, VALIDATOR_NAMES};
use crate::filegen::*;
use crate::imp::{self, Outcome, RunSpec};
use crate::mainargs::{self, MainArgs};
use crate::prng::Rng;
use serde_json::json;

pub const HEADER: &str = "From BW Require Import SpecRun Main.";

const LANGS_M: [&str; 4] = ["bash", "ruby", "js", "python"];
const LINES: [&str; 10] = ["a", "b", "c", "a", "10", "2", "k9", "zz", "", "b"];
const LP_PATS: [&str; 4] = ["^[a-z]+$", "[0-9]", "^k", "^(a|b|c)$"];

pub fn scripts_dir() -> String {
    let d = std::env::var("BWV_SCRATCH").unwrap_or_else(|_| "/verif/.cache/scratch".to_string()) + "/scripts";
    std::fs::create_dir_all(&d).ok();
    let w = |name: &str, body: &str| {
        let p = format!("{d}/{name}");
        if std::fs::read_to_string(&p).ok().as_deref() != Some(body) {
            std::fs::write(&p, body).ok();
        }
    };
    w("echo.lua", "function validate(ctx, content)\n  return content\nend\n");
    w("nil.lua", "function validate(ctx, content)\n  return nil\nend\n");
    w("err.lua", "function validate(ctx, content)\n  error('boom')\nend\n");
    w("num.lua", "function validate(ctx, content)\n  return 42\nend\n");
    w("novalidate.lua", "x = 1\n");
    w("syntax.lua", "function validate(ctx, content\n");
    w("probe.lua", include_str!("../../scripts/probe.lua"));
    w("escape.lua", include_str!("../../scripts/escape.lua"));
    w("side.lua", "return 42\n");
    w("ctx.lua", "function validate(ctx, content)\n  local keys = {}\n  for k, v in pairs(ctx.attrs) do keys[#keys + 1] = k .. '=' .. v end\n  table.sort(keys)\n  return ctx.file .. '|' .. tostring(ctx.line) .. '|' .. table.concat(keys, ';') .. '|' .. content\nend\n");
    d
}

#[derive(Clone, Debug)]
pub struct BlockPlan {
    pub attrs: Vec<(String, String)>,
    pub lines: Vec<String>,
}

pub struct Repo {
    pub files: Vec<(String, &'static Lang, Rendered)>,
    pub tables: Tables,
}

pub fn random_rules(rng: &mut Rng, bi: usize, with_lua: bool) -> Vec<(String, String)> {
    let mut attrs: Vec<(String, String)> = Vec::new();
    if rng.chance(2, 3) {
        attrs.push(("name".into(), format!("r{bi}")));
    }
    if rng.chance(1, 2) {
        attrs.push(("line-count".into(), format!("{}{}", ["<", "<=", "==", ">=", ">"][rng.below(5)], rng.below(6))));
    }
    if rng.chance(1, 2) {
        attrs.push(("keep-sorted".into(), ["asc", "desc", "", "ASC"][rng.below(4)].to_string()));
    }
    if rng.chance(1, 3) {
        attrs.push(("keep-unique".into(), String::new()));
    }
    if rng.chance(1, 3) {
        attrs.push(("line-pattern".into(), LP_PATS[rng.below(LP_PATS.len())].to_string()));
    }
    if with_lua && rng.chance(1, 4) {
        let d = scripts_dir();
        attrs.push(("check-lua".into(), format!("{d}/{}", ["echo.lua", "nil.lua"][rng.below(2)])));
    }
    if rng.chance(1, 3) {
        attrs.push(("severity".into(), SEVERITIES[rng.below(SEVERITIES.len())].to_string()));
    }
    attrs
}

pub fn lua_oracle(tables: &mut Tables, attrs: &[(String, String)], path: &str, line: usize, content: &str) {
    let get = |k: &str| attrs.iter().find(|(n, _)| n == k).map(|(_, v)| v.clone());
    if let Some(script) = get("check-lua") {
        let arg = match get("check-lua-pattern") {
            Some(p) => match regex::Regex::new(&p) {
                Ok(re) => re.captures(content).map(|c| c.name("value").map(|m| m.as_str().to_string()).unwrap_or_else(|| c.get(0).unwrap().as_str().to_string())).unwrap_or_default(),
                Err(_) => return,
            },
            None => content.trim().to_string(),
        };
        let name = script.rsplit('/').next().unwrap_or("");
        let res = match name {
            "echo.lua" => (1, arg.clone()),
            "nil.lua" => (0, String::new()),
            "ctx.lua" => {
                let line = 0; // filled by the caller through `lua_ctx_oracle`
                let _ = line;
                return;
            }
            _ => (2, String::new()),
        };
        tables.lua.insert((script, format!("{path}:{line}"), arg), res);
    }
}

pub fn gen_repo(rng: &mut Rng, idx: usize, with_lua: bool, override_first: Option<BlockPlan>) -> Repo {
    let nfiles = rng.range(1, 3);
    let mut files = Vec::new();
    let mut tables = Tables::default();
    let mut first = override_first;
    for fi in 0..nfiles {
        let lang = lang(LANGS_M[(idx + fi) % LANGS_M.len()]);
        let mut nodes = Vec::new();
        let nblocks = rng.range(1, 3);
        for bi in 0..nblocks {
            let plan = match first.take() {
                Some(p) if fi == 0 && bi == 0 => p,
                other => {
                    first = other;
                    let n = rng.below(5);
                    BlockPlan { attrs: random_rules(rng, fi * 10 + bi, with_lua), lines: (0..n).map(|_| LINES[rng.below(LINES.len())].to_string()).collect() }
                }
            };
            let aref: Vec<(&str, &str)> = plan.attrs.iter().map(|(k, v)| (k.as_str(), v.as_str())).collect();
            nodes.push(simple_block(lang, rng, TagSrc::simple(&aref), &plan.lines));
            if rng.chance(1, 2) {
                nodes.push(GNode::Text(lang.code[rng.below(lang.code.len())].to_string()));
            }
        }
        let r = render(&FileSpec { lang, nodes, crlf: false, final_newline: true });
        let dir = ["", "src/", "lib/x/"][rng.below(3)];
        let path = format!("{dir}m{fi}.{}", lang.suffixes[0]);
        for (k, b) in r.blocks.iter().enumerate() {
            let content = content_of(&r, k);
            tables.add_block(&b.attrs, content);
            lua_oracle(&mut tables, &b.attrs, &path, b.ts.0, content);
        }
        files.push((path, lang, r));
    }
    Repo { files, tables }
}

pub fn rfiles_coq(spec: &RunSpec, allow_all: bool) -> Vec<String> {
    let (_, comments, _) = fcases(spec);
    spec.files
        .iter()
        .enumerate()
        .map(|(k, (path, text))| {
            let fam = family_of_path(path, &spec.ext);
            let spans: Vec<String> = comments[k]
                .iter()
                .map(|c| {
                    let raw = text.get(c.lo..c.hi).unwrap_or("");
                    format!("mkspan {} {} {} {}", c.lo, c.hi, fam.map(|f| kind_of(f, raw, c.group)).unwrap_or(K_RAW), c.group)
                })
                .collect();
            format!("(mkrfile {} {} [{}] true {} false)", cstr(path), cstr(text), spans.join("; "), cbool(allow_all))
        })
        .collect()
}

/// the files of a run as `mfile`s of Main.v: nothing typed that globset would have to judge
pub fn mfiles_coq(spec: &RunSpec) -> Vec<String> {
    rfiles_coq(spec, false)
        .into_iter()
        .map(|r| {
            // "(mkrfile p t [spans] true false false)" -> "(mkmfile p t [spans] true true false false false)"
            let body = r.strip_prefix("(mkrfile ").and_then(|x| x.strip_suffix(" true false false)")).expect("rfile shape");
            format!("(mkmfile {body} true true false false false)")
        })
        .collect()
}

pub fn vnums(names: &[String]) -> String {
    clist(names, |n| emit::code_num(n).to_string())
}

pub fn rcase_coq(spec: &RunSpec, tables: &Tables) -> String {
    format!(
        "(mkrcase [{}] {} {} {} {} {} {} [])",
        rfiles_coq(spec, true).join("; "),
        copt(&spec.diff, |d| cstr(d)),
        cbool(!spec.globs.is_empty()),
        clist(&spec.ext, |(k, v)| cpair(cstr(k), cstr(v))),
        vnums(&spec.enabled),
        vnums(&spec.disabled),
        tables.coq()
    )
}

fn cli_args(spec: &RunSpec) -> Vec<String> {
    let mut a = Vec::new();
    for d in &spec.disabled {
        a.push("-d".to_string());
        a.push(d.clone());
    }
    for e in &spec.enabled {
        a.push("-e".to_string());
        a.push(e.clone());
    }
    a
}

// ---------------------------------------------------------------- C11
pub fn generate_c11(rng: &mut Rng, idx: usize, _tier: Tier) -> CaseOut {
    let repo = gen_repo(rng, idx, idx % 3 == 0, None);
    let spec = RunSpec { files: repo.files.iter().map(|(p, _, r)| (p.clone(), r.text.clone())).collect(), globs: vec!["**".into()], ..Default::default() };
    let out = imp::run(&spec);
    // the real binary: terminal mode, no arguments (default glob **)
    let c = cli::run(&CliRun { files: spec.files.clone(), ..Default::default() });
    let (cli_obs, shape) = cli::interpret_run(&c);
    let shape_ok = shape.stderr_is_one_json_object && shape.every_diag_wellformed && shape.silent_when_clean && shape.stdout_empty;
    // `list`: one JSON object on stdout, exit 0
    let mut tags = Vec::new();
    let list_ok = if idx % 4 == 0 {
        let l = cli::run(&CliRun { files: spec.files.clone(), args: vec!["list".into()], ..Default::default() });
        let lo = cli::interpret_list(&l);
        tags.push("with-list".to_string());
        match (&lo, &out.list) {
            (Outcome::Ok(a), Outcome::Ok(b)) => a == b && l.stderr.is_empty(),
            (Outcome::Err(_, _), Outcome::Err(_, _)) => true,
            _ => false,
        }
    } else {
        true
    };
    let coq = format!("(check_run2 {} {} {} {})", rcase_coq(&spec, &repo.tables), emit::obs(&out.run), emit::obs(&cli_obs), cbool(shape_ok && list_ok));
    if let Outcome::Ok((ds, e)) = &cli_obs {
        tags.push(format!("diagnostics:{}", ds.len().min(6)));
        tags.push(format!("exit:{e}"));
        tags.push(format!("files-with-diagnostics:{}", ds.iter().map(|d| d.file.clone()).collect::<std::collections::BTreeSet<_>>().len()));
        let sevs: std::collections::BTreeSet<u64> = ds.iter().map(|d| d.sev).collect();
        tags.push(format!("severities:{:?}", sevs));
    } else {
        tags.push("outcome:error".into());
    }
    let key = spec.files.iter().map(|(p, t)| format!("{p}\n{t}")).collect::<Vec<_>>().join("|");
    let nontrivial = matches!(&cli_obs, Outcome::Ok((ds, _)) if !ds.is_empty());
    CaseOut {
        coq,
        json: json!({"input": spec_json(&spec), "implementation": impl_json(&out), "cli": {"exit": c.code, "stderr": c.stderr, "stdout": c.stdout}, "shape_ok": shape_ok, "list_ok": list_ok}),
        key,
        nontrivial,
        tags,
    }
}

// ---------------------------------------------------------------- C14
pub fn generate_c14(rng: &mut Rng, idx: usize, _tier: Tier) -> CaseOut {
    let repo = gen_repo(rng, idx, true, None);
    let base = RunSpec { files: repo.files.iter().map(|(p, _, r)| (p.clone(), r.text.clone())).collect(), globs: vec!["**".into()], ..Default::default() };
    // subset of the seven validators, systematically by index
    // (every 32nd case names all seven, every other 32nd none: the extremes must not be left to
    // the sweep, whose index 127 coincides with the rejected-flag cases below; 5 % 4 == 1, so
    // these runs go through the real binary and main.rs)
    let mask = if idx % 32 == 5 { 127 } else if idx % 32 == 23 { 0 } else { idx % 128 };
    let enable = if idx % 32 == 5 { (idx / 32) % 2 == 1 } else { (idx / 128) % 2 == 1 };
    let mut subset: Vec<String> = (0..7).filter(|k| mask & (1 << k) != 0).map(|k| VALIDATOR_NAMES[k].to_string()).collect();
    if rng.chance(1, 4) && !subset.is_empty() {
        // repeating a flag composes as set union
        let dup = subset[rng.below(subset.len())].clone();
        subset.push(dup);
    }
    let mut tags = vec![format!("mode:{}", if enable { "enable" } else { "disable" }), format!("subset-size:{}", mask.count_ones())];
    if idx % 16 == 15 {
        // rejected flag combinations, through the real binary, against the model of main.rs / flags.rs
        let mut m = MainArgs::default();
        let what = match rng.below(4) {
            0 => {
                m.en_raw.push("line-count".into());
                m.dis_raw.push("keep-sorted".into());
                "both"
            }
            1 => {
                // the same validator on both sides is still both flags
                let v = VALIDATOR_NAMES[rng.below(7)].to_string();
                m.en_raw.push(v.clone());
                m.dis_raw.push(v);
                "both-same"
            }
            _ => {
                let bad = ["keep_sorted", "linecount", "Keep-Sorted", "all", "", " keep-sorted", "check-lua ", "affects,keep-sorted"][rng.below(8)].to_string();
                if rng.chance(1, 2) { m.dis_raw.push(bad) } else { m.en_raw.push(bad) }
                if rng.chance(1, 2) {
                    m.dis_raw.insert(0, "check-ai".into());
                }
                "unknown"
            }
        };
        let args = m.argv(rng);
        let c = cli::run(&CliRun { files: base.files.clone(), args: args.clone(), ..Default::default() });
        let rejected = c.code.map(|x| x != 0).unwrap_or(false) && !c.timed_out && !c.stderr.contains("panicked") && !c.stderr.trim_start().starts_with('{');
        tags.push(format!("rejected:{what}"));
        tags.push(mainargs::outcome_tag(&c, false));
        return CaseOut {
            coq: format!("(check_main {} [{}] {} [] {} {})", m.coq(&None, true), mfiles_coq(&base).join("; "), repo.tables.coq(), mainargs::mobs_coq(&c, false), cbool(rejected)),
            json: json!({"input": spec_json(&base), "args": args, "cli": {"exit": c.code, "stderr": c.stderr}}),
            key: format!("{:?}|{}", args, base.files[0].1),
            nontrivial: true,
            tags,
        };
    }
    let mut flagged = base.clone();
    if enable {
        flagged.enabled = subset.clone();
    } else {
        flagged.disabled = subset.clone();
    }
    let o0 = imp::run(&base);
    let mut uniq = subset.clone();
    uniq.sort();
    uniq.dedup();
    // the flagged run goes through the real binary every fourth case, and is then compared with the
    // model of main.rs / flags.rs (the in-process runner hands the flag sets to detect_validators itself)
    let (coq, o1) = if idx % 4 == 1 {
        let m = MainArgs { dis_raw: flagged.disabled.clone(), en_raw: flagged.enabled.clone(), ..Default::default() };
        let args = m.argv(rng);
        let c = cli::run(&CliRun { files: flagged.files.clone(), args, ..Default::default() });
        tags.push("via:cli".into());
        let coq = format!(
            "(check_flag_main {} {} {} [{}] {} {} {} {})",
            rcase_coq(&base, &repo.tables), emit::obs(&o0.run), m.coq(&None, true), mfiles_coq(&flagged).join("; "), repo.tables.coq(),
            mainargs::mobs_coq(&c, false), cbool(enable && !subset.is_empty()), vnums(&uniq)
        );
        (coq, cli::interpret_run(&c).0)
    } else {
        let o1 = imp::run(&flagged).run;
        let coq = format!(
            "(check_flag {} {} {} {} {} {})",
            rcase_coq(&base, &repo.tables), rcase_coq(&flagged, &repo.tables), emit::obs(&o0.run), emit::obs(&o1),
            cbool(enable && !subset.is_empty()), vnums(&uniq)
        );
        (coq, o1)
    };
    let nontrivial = matches!(&o0.run, Outcome::Ok((ds, _)) if !ds.is_empty());
    if let (Outcome::Ok((a, _)), Outcome::Ok((b, _))) = (&o0.run, &o1) {
        tags.push(format!("removed:{}", (a.len() - b.len().min(a.len())).min(5)));
    }
    CaseOut {
        coq,
        json: json!({"input": spec_json(&flagged), "unrestricted": impl_json(&o0), "flagged_run": match &o1 { Outcome::Ok((ds, e)) => json!({"exit": e, "diagnostics": ds.iter().map(|d| json!([d.file, d.code, d.sl])).collect::<Vec<_>>()}), Outcome::Err(c, m) => json!({"error_class": c, "error": m}), Outcome::Panic(m) => json!({"panic": m}) }}),
        key: format!("{mask}|{enable}|{}", base.files.iter().map(|(_, t)| t.as_str()).collect::<Vec<_>>().join("|")),
        nontrivial,
        tags,
    }
}

// ---------------------------------------------------------------- C13
pub fn generate_c13(rng: &mut Rng, idx: usize, _tier: Tier) -> CaseOut {
    let d = scripts_dir();
    let class = idx % 12;
    let mut lazy_ok = false;
    let mut need_diff = false;
    let bad_regex = ["(", "[a-", "*a", "(?P<value>", "a{2,1}"];
    let garbage_count = ["", " ", "5", "=5", "=> 5", "< five", "<= 5 lines", ">= -1", "< 18446744073709551616", "<5<", "≤ 3", "<>1", "== 1.0"];
    let (attrs, lines, what): (Vec<(String, String)>, Vec<String>, String) = match class {
        0 => {
            let v = ["sideways", "ascending", " asc", "descc", "a", "asc desc", "ＡＳＣ"][rng.below(7)];
            (vec![("keep-sorted".into(), v.into())], vec!["a".into(), "b".into()], format!("keep-sorted={v:?}"))
        }
        1 => {
            let v = ["alphabetic", "num", "numeric!", "lexicographic numeric", "0"][rng.below(5)];
            (vec![("keep-sorted".into(), "asc".into()), ("keep-sorted-format".into(), v.into())], vec!["1".into(), "2".into()], format!("keep-sorted-format={v:?}"))
        }
        2 => {
            lazy_ok = true;
            let ls: Vec<String> = [vec!["1", "x"], vec!["x", "1"], vec!["1", "2", "1e", "3"], vec!["2", "1", "abc"], vec!["", "7", "0x10"], vec!["x", "x"], vec!["TODO", "TODO", "TODO"], vec!["5", "n/a", "n/a"]][rng.below(8)].iter().map(|s| s.to_string()).collect();
            (vec![("keep-sorted".into(), "asc".into()), ("keep-sorted-format".into(), "numeric".into())], ls.clone(), format!("numeric keys {ls:?}"))
        }
        3 => {
            let p = bad_regex[rng.below(bad_regex.len())];
            let attr = ["keep-sorted-pattern", "keep-unique", "line-pattern"][rng.below(3)];
            let mut a = vec![(attr.to_string(), p.to_string())];
            if attr == "keep-sorted-pattern" {
                a.insert(0, ("keep-sorted".into(), "asc".into()));
            }
            (a, vec!["a".into(), "b".into()], format!("{attr}={p:?}"))
        }
        4 | 5 => {
            let v = garbage_count[rng.below(garbage_count.len())];
            (vec![("line-count".into(), v.into())], vec!["a".into()], format!("line-count={v:?}"))
        }
        6 => {
            need_diff = true;
            let v = ["nocolon", "a.py", "x:y, z", ",", ""][rng.below(5)];
            (vec![("name".into(), "src".into()), ("affects".into(), v.into())], vec!["a".into(), "b".into()], format!("affects={v:?} on a modified block"))
        }
        7 => {
            let v = ["fatal", "warn", "", " error", "errors", "1"][rng.below(6)];
            (vec![("line-count".into(), "<1".into()), ("severity".into(), v.into())], vec!["a".into(), "b".into()], format!("severity={v:?} on a violating block"))
        }
        8 => {
            let v = ["", " ", "\t"][rng.below(3)];
            (vec![("check-lua".into(), v.into())], vec!["a".into()], format!("check-lua={v:?}"))
        }
        9 => {
            let v = [format!("{d}/missing.lua"), d.clone(), format!("{d}/novalidate.lua"), format!("{d}/syntax.lua"), format!("{d}/err.lua"), format!("{d}/num.lua")][rng.below(6)].clone();
            (vec![("check-lua".into(), v.clone())], vec!["a".into()], format!("check-lua={v:?}"))
        }
        10 => {
            let v = ["", " "][rng.below(2)];
            (vec![("check-ai".into(), v.into())], vec!["a".into()], format!("check-ai={v:?}"))
        }
        _ => {
            // a well-formed AI rule without an API key
            (vec![("check-ai".into(), "must be polite".into())], vec!["a".into()], "check-ai without BLOCKWATCH_AI_API_KEY".to_string())
        }
    };
    // a third of the malformed rules share their block with a healthy rule that is detected first
    // (registration order): the malformed one must still be found and must still fail the run
    let mut attrs = attrs;
    let mut what = what;
    if class >= 3 && class != 6 && !attrs.iter().any(|(k, _)| k == "keep-sorted") && rng.chance(1, 3) {
        attrs.insert(0, ("keep-sorted".into(), "asc".into()));
        what.push_str(" beside a healthy keep-sorted");
    }
    let plan = BlockPlan { attrs: attrs.clone(), lines };
    let mut repo = gen_repo(rng, idx, false, Some(plan));
    let (bad_file, _, r0) = &repo.files[0];
    let bad_line = r0.blocks[0].ts.0;
    // AI oracle: the endpoint is never reached; a missing key is a fault
    if class == 11 {
        repo.tables.ai.insert(("must be polite".into(), content_of(r0, 0).trim().to_string()), (2, String::new()));
    }
    let mut spec = RunSpec { files: repo.files.iter().map(|(p, _, r)| (p.clone(), r.text.clone())).collect(), globs: vec!["**".into()], ..Default::default() };
    if need_diff {
        // mark the first block's content modified: its first content line is an added line
        let b = &r0.blocks[0];
        let l = b.cs.0 + 1;
        let lines: Vec<&str> = r0.text.split('\n').collect();
        let added = lines.get(l - 1).copied().unwrap_or("");
        spec.diff = Some(format!("--- a/{bad_file}\n+++ b/{bad_file}\n@@ -{},0 +{} @@\n+{}\n", l - 1, l, added));
    }
    let out = imp::run(&spec);
    let coq = format!("(check_malformed {} {} {} {} {})", rcase_coq(&spec, &repo.tables), emit::obs(&out.run), cstr(bad_file), bad_line, cbool(lazy_ok));
    let mut tags = vec![format!("class:{class}")];
    match &out.run {
        Outcome::Err(c, _) => tags.push(format!("error-class:{c}")),
        Outcome::Ok(_) => tags.push("outcome:report".into()),
        Outcome::Panic(_) => tags.push("outcome:panic".into()),
    }
    CaseOut {
        coq,
        json: json!({"input": spec_json(&spec), "malformation": what, "on_block_at": [bad_file, bad_line], "implementation": impl_json(&out)}),
        key: format!("{what}|{}", spec.files.iter().map(|(_, t)| t.as_str()).collect::<Vec<_>>().join("|")),
        nontrivial: true,
        tags,
    }
}

// ---------------------------------------------------------------- C20
pub fn generate_c20(rng: &mut Rng, idx: usize, _tier: Tier) -> CaseOut {
    let repo = gen_repo(rng, idx, true, None);
    let spec = RunSpec { files: repo.files.iter().map(|(p, _, r)| (p.clone(), r.text.clone())).collect(), globs: vec!["**".into()], ..Default::default() };
    let mut runs: Vec<(String, Outcome<(Vec<imp::Diag>, u32)>)> = Vec::new();
    let inproc = imp::run(&spec);
    runs.push(("in-process".into(), inproc.run.clone()));
    let base = CliRun { files: spec.files.clone(), ..Default::default() };
    let mut variants: Vec<(String, CliRun)> = vec![("cli".into(), base.clone()), ("cli again".into(), base.clone())];
    let mut rev = base.clone();
    rev.files.reverse();
    variants.push(("files created in reverse order".into(), rev));
    variants.push(("pinned to one cpu".into(), CliRun { cpus: 1, ..base.clone() }));
    variants.push(("one tokio worker".into(), CliRun { env: vec![("TOKIO_WORKER_THREADS".into(), "1".into())], ..base.clone() }));
    // a sub-directory of the repository as the current directory (scripts are referenced by absolute path)
    let sub = spec.files.iter().filter_map(|(p, _)| p.rfind('/').map(|i| p[..i].to_string())).next();
    if let Some(s) = sub {
        variants.push((format!("cwd = {s}"), CliRun { cwd: s, ..base.clone() }));
    }
    let pick = rng.range(3, variants.len());
    let mut tags = Vec::new();
    for (name, v) in variants.into_iter().take(pick.max(3)) {
        let c = cli::run(&v);
        tags.push(format!("variant:{}", name.split(' ').next().unwrap_or("")));
        runs.push((name, cli::interpret_run(&c).0));
    }
    let coq = format!("(check_same {} [{}])", rcase_coq(&spec, &repo.tables), runs.iter().map(|(_, o)| emit::obs(o)).collect::<Vec<_>>().join("; "));
    let nontrivial = matches!(&inproc.run, Outcome::Ok((ds, _)) if ds.len() >= 2);
    CaseOut {
        coq,
        json: json!({"input": spec_json(&spec), "runs": runs.iter().map(|(n, o)| json!({"variant": n, "outcome": match o { Outcome::Ok((ds, e)) => json!({"exit": e, "diagnostics": ds.iter().map(|d| json!([d.file, d.code, d.sl, d.sc])).collect::<Vec<_>>()}), Outcome::Err(c, m) => json!({"error_class": c, "error": m}), Outcome::Panic(m) => json!({"panic": m}) }})).collect::<Vec<_>>()}),
        key: spec.files.iter().map(|(p, t)| format!("{p}\n{t}")).collect::<Vec<_>>().join("|"),
        nontrivial,
        tags,
    }
}

//! C03 / C05 / C12: files assembled from comment forms with rich tag syntax,
//! nesting, siblings, look-alikes, noise, decoys in string literals; optionally
//! damaged (one tag deleted / duplicated) for C12.
use crate::common::*;
use crate::coqw::*;
use crate::emit;
use crate::filegen::*;
use crate::imp::{self, Outcome, RunSpec};
use crate::prng::Rng;
use serde_json::json;

pub const HEADER: &str = "From BW Require Import SpecList.";

const NAME_CHARS: [&str; 14] = ["a", "b", "Z", "0", "9", "-", "_", "é", "ß", "日", "٣", "k", "x", "Ω"];
const VAL_CHARS: [&str; 22] = ["a", "b", "1", " ", ">", "<", "=", "/", "é", "日", "🙂", "-", "_", ".", ":", ",", "(", ")", "[", "x", "y", "&quot;"];
const WS1: [&str; 4] = [" ", "  ", "\t", " \t"];
const WS0: [&str; 4] = ["", "", " ", "\t"];
pub const LOOKALIKES: [&str; 12] = [
    "<blockquote>", "<block/>", "<Block>", "< block>", "<blocks>", "<block-x>", "<block a=>", "<block a= >",
    "<block\u{a0}a>", "<BLOCK>", "</Block>", "</blockquote>",
];
const NOISE: [&str; 13] = ["<b>", "</div>", "a < b", "<<", "<>", "x > y", "<3", "</ blok>", "<block", "< /", "lo <hi", "Vec<T", "<a href"];
const END_TAGS: [&str; 6] = ["</block>", "</ block>", "</block >", "< /block>", "</ block >", "<\t/\tblock\t>"];

fn word(rng: &mut Rng, chars: &[&str], lo: usize, hi: usize) -> String {
    let n = rng.range(lo, hi);
    let w: String = (0..n).map(|_| *rng.pick(chars)).collect();
    // "--" may not occur inside XML/HTML comments
    w.replace("--", "-_")
}

pub struct Knobs {
    pub rich_tags: bool,
    pub multiline_ws: bool,
    pub lookalikes: bool,
    pub max_depth: usize,
    pub langs: Vec<&'static str>,
    pub echo: bool,
}

pub fn rich_tag(rng: &mut Rng, name: Option<&str>, nl_ws: Option<&str>) -> TagSrc {
    let n = rng.below(7);
    let mut attrs = Vec::new();
    if let Some(nm) = name {
        attrs.push(Attr { ws: " ".into(), name: "name".into(), val: Some((String::new(), String::new(), AVal::Dq(nm.into()))) });
    }
    let mut names: Vec<String> = Vec::new();
    for _ in 0..n {
        let nm = if !names.is_empty() && rng.chance(1, 6) { rng.pick(&names).clone() } else { word(rng, &NAME_CHARS, 1, 4) };
        if nm == "name" || nm.starts_with("check-") || nm == "severity" || nm.starts_with("keep-") || nm.starts_with("line-") || nm == "affects" {
            continue;
        }
        names.push(nm.clone());
        let ws = match nl_ws {
            Some(w) if rng.chance(1, 4) => w.to_string(),
            _ => rng.pick(&WS1).to_string(),
        };
        let val = match rng.below(5) {
            0 => None,
            1 => Some(AVal::Bare(word(rng, &NAME_CHARS, 1, 5))),
            2 => Some(AVal::Sq(word(rng, &VAL_CHARS, 0, 8).replace('\'', "") + if rng.chance(1, 4) { "\"" } else { "" })),
            _ => Some(AVal::Dq(word(rng, &VAL_CHARS, 0, 8) + if rng.chance(1, 4) { "'" } else { "" })),
        };
        // never form a comment closer inside a value
        let val = val.map(|v| match v {
            AVal::Sq(x) => AVal::Sq(x.replace("--", "-")),
            AVal::Dq(x) => AVal::Dq(x.replace("--", "-")),
            b => b,
        });
        let val = val.map(|v| {
            let w1 = match nl_ws { Some(w) if rng.chance(1, 10) => w.to_string(), _ => rng.pick(&WS0).to_string() };
            let w2 = match nl_ws { Some(w) if rng.chance(1, 10) => w.to_string(), _ => rng.pick(&WS0).to_string() };
            (w1, w2, v)
        });
        attrs.push(Attr { ws, name: nm, val });
    }
    let ws_end = match nl_ws { Some(w) if rng.chance(1, 8) => w.to_string(), _ => rng.pick(&WS0).to_string() };
    TagSrc { attrs, ws_end }
}

fn place(lang: &Lang, rng: &mut Rng, knobs: &Knobs, multi_ok: bool) -> Place {
    let can_line = !lang.line.is_empty();
    let can_block = lang.block.is_some();
    let form = if can_block && (!can_line || rng.chance(2, 5)) {
        if multi_ok && rng.chance(1, 2) {
            Form::BlockMulti { before: rng.below(3), after: rng.below(3), deco: rng.chance(1, 2) && lang.block.map(|b| b.0) == Some("/*") }
        } else {
            Form::BlockOne
        }
    } else {
        Form::Line(rng.below(6))
    };
    let pre = if knobs.lookalikes && rng.chance(1, 3) {
        format!(" {} ", if rng.chance(1, 2) { *rng.pick(&LOOKALIKES) } else { *rng.pick(&NOISE) })
    } else {
        rng.pick(&[" ", "", "  ", " see: ", " é "]).to_string()
    };
    // `<block` noise directly before a real tag would swallow it; keep noise self-contained
    let pre = if pre.contains("<block") && !pre.contains('>') { " ".to_string() } else { pre };
    let post = if knobs.lookalikes && rng.chance(1, 4) { format!(" {}", rng.pick(&NOISE[..8])) } else { rng.pick(&["", " ", " ok"]).to_string() };
    let post = if matches!(form, Form::Line(_)) { post } else { format!("{post} ") };
    Place { form, indent: rng.pick(&["", "", "  ", "\t"]).to_string(), pre, post, trailing: String::new() }
}

fn gen_nodes(lang: &'static Lang, rng: &mut Rng, knobs: &Knobs, depth: usize, counter: &mut usize, budget: &mut usize) -> Vec<GNode> {
    let mut nodes = Vec::new();
    let n = rng.range(1, 3);
    for _ in 0..n {
        if *budget == 0 {
            break;
        }
        let pick = rng.below(12);
        if pick == 11 {
            // comments inside a string-like construct: they are comments all the same
            if *budget >= 1 && matches!(lang.name, "bash" | "js" | "python") {
                *budget -= 1;
                *counter += 1;
                let name = format!("n{}", *counter);
                let mut tag = TagSrc::simple(&[("name", name.as_str())]);
                if knobs.echo {
                    let d = crate::props::mix::scripts_dir();
                    tag.attrs.push(Attr { ws: " ".into(), name: "check-lua".into(), val: Some((String::new(), String::new(), AVal::Dq(format!("{d}/echo.lua")))) });
                    tag.attrs.push(Attr { ws: " ".into(), name: "check-lua-pattern".into(), val: Some((String::new(), String::new(), AVal::Dq("[\\s\\S]*".into()))) });
                }
                let line = |indent: &str| Place { form: Form::Line(0), indent: indent.to_string(), pre: " ".into(), post: String::new(), trailing: String::new() };
                let (before, start, body, end, after) = match lang.name {
                    "bash" => ("hosts=\"$(", line(""), vec![GNode::Text("echo v1".into())], line(""), ")\""),
                    "js" => ("const t = `${", line(""), vec![GNode::Text("v1,".into())], line(""), "1}`;"),
                    _ => ("x = (", line("\"a\"  "), vec![], line("\"b\"  "), ")"),
                };
                nodes.push(GNode::Wrap { before: before.into(), inner: vec![GNode::Blk(GBlock { tag, start, end, end_tag: "</block>".into(), body })], after: after.into() });
            }
            continue;
        }
        if pick == 10 {
            // nested blocks starting in one comment, i.e. on one line (listed left to right)
            if *budget >= 2 {
                let k = rng.range(2, 3).min(*budget);
                *budget -= k;
                let mut tags = Vec::new();
                for _ in 0..k {
                    *counter += 1;
                    let name = format!("n{}", *counter);
                    let mut tag = TagSrc::simple(&[("name", name.as_str())]);
                    if knobs.echo {
                        let d = crate::props::mix::scripts_dir();
                        tag.attrs.push(Attr { ws: " ".into(), name: "check-lua".into(), val: Some((String::new(), String::new(), AVal::Dq(format!("{d}/echo.lua")))) });
                        tag.attrs.push(Attr { ws: " ".into(), name: "check-lua-pattern".into(), val: Some((String::new(), String::new(), AVal::Dq("[\\s\\S]*".into()))) });
                    }
                    tags.push(tag);
                }
                let p = place(lang, rng, knobs, false);
                let start = Place { pre: " ".into(), post: if matches!(p.form, Form::Line(_)) { "".into() } else { " ".into() }, ..p };
                let mut e = place(lang, rng, knobs, false);
                while lang.family == Family::Md && matches!(start.form, Form::Line(_)) != matches!(e.form, Form::Line(_)) {
                    e = place(lang, rng, knobs, false);
                }
                let end = Place { pre: " ".into(), post: if matches!(e.form, Form::Line(_)) { "".into() } else { " ".into() }, ..e };
                let mut body = Vec::new();
                for _ in 0..rng.below(3) {
                    body.push(GNode::Text(lang.wrap_token(&format!("v{}", rng.below(50)))));
                }
                nodes.push(GNode::Nest { start, tags, body, end, ends_together: rng.chance(1, 2) });
            }
            continue;
        }
        match pick {
            0..=4 => {
                *budget -= 1;
                *counter += 1;
                let name = format!("n{}", *counter);
                let start = place(lang, rng, knobs, true);
                let nl_ws = match (&start.form, knobs.multiline_ws) {
                    (Form::BlockMulti { deco: true, .. }, true) => Some(format!("\n{} * ", start.indent)),
                    (Form::BlockMulti { deco: false, .. }, true) => Some(format!("\n{}   ", start.indent)),
                    _ => None,
                };
                let mut tag = if knobs.rich_tags {
                    let named = rng.chance(2, 3);
                    rich_tag(rng, if named { Some(&name) } else { None }, nl_ws.as_deref())
                } else {
                    TagSrc::simple(&[("name", name.as_str())])
                };
                if knobs.echo {
                    // the content observation point: a script that returns its content argument verbatim
                    let d = crate::props::mix::scripts_dir();
                    tag.attrs.push(Attr { ws: " ".into(), name: "check-lua".into(), val: Some((String::new(), String::new(), AVal::Dq(format!("{d}/echo.lua")))) });
                    tag.attrs.push(Attr { ws: " ".into(), name: "check-lua-pattern".into(), val: Some((String::new(), String::new(), AVal::Dq("[\\s\\S]*".into()))) });
                }
                let mut body = Vec::new();
                if depth < knobs.max_depth && rng.chance(1, 2) {
                    body = gen_nodes(lang, rng, knobs, depth + 1, counter, budget);
                } else {
                    for _ in 0..rng.below(3) {
                        body.push(GNode::Text(lang.wrap_token(&format!("v{}", rng.below(50)))));
                    }
                }
                let mut end = place(lang, rng, knobs, true);
                if lang.family == Family::Md {
                    // reference comments and HTML comments are paired separately: keep both tags in one kind
                    while matches!(start.form, Form::Line(_)) != matches!(end.form, Form::Line(_)) {
                        end = place(lang, rng, knobs, true);
                    }
                }
                let end_tag = if knobs.rich_tags { rng.pick(&END_TAGS).to_string() } else { "</block>".to_string() };
                if lang.family == Family::Md && !matches!(start.form, Form::Line(_)) && depth == 0 && rng.chance(1, 3) {
                    // an html block inside a list item does not start in column 1
                    let mut b = GBlock { tag, start, end, end_tag, body };
                    b.start.form = Form::BlockOne;
                    b.end.form = Form::BlockOne;
                    b.body.retain(|n| matches!(n, GNode::Text(_)));
                    nodes.push(GNode::MdListItem(vec![GNode::Blk(b)]));
                } else {
                    nodes.push(GNode::Blk(GBlock { tag, start, end, end_tag, body }));
                }
            }
            5 | 6 => nodes.push(GNode::Text(rng.pick(lang.code).to_string())),
            7 => {
                // a decoy tag inside a string literal
                if let Some(d) = lang.decoy {
                    let decoy = if lang.family == Family::Xml { "&lt;block name=decoy&gt;" } else { "<block name='decoy'>" };
                    nodes.push(GNode::Text(d.replacen("{}", decoy, 1)));
                }
            }
            8 => {
                // a comment without tags, possibly with look-alikes
                let p = place(lang, rng, knobs, false);
                let text = if knobs.lookalikes { rng.pick(&LOOKALIKES).to_string() } else { "plain words".to_string() };
                nodes.push(GNode::Note(Place { pre: " ".into(), post: if matches!(p.form, Form::Line(_)) { "".into() } else { " ".into() }, ..p }, text));
            }
            _ => {
                // several complete tags in one comment: a same-comment (empty) block
                if *budget > 0 {
                    *budget -= 1;
                    *counter += 1;
                    let p = place(lang, rng, knobs, false);
                    let name = format!("s{}", *counter);
                    nodes.push(GNode::Multi(
                        Place { pre: " ".into(), post: if matches!(p.form, Form::Line(_)) { "".into() } else { " ".into() }, ..p },
                        vec![format!("<block name=\"{name}\">"), " mid ".into(), "</block>".into()],
                    ));
                }
            }
        }
    }
    nodes
}

/// expected blocks of a same-comment `Multi` node are not tracked by the renderer; recover them from the text
fn multi_blocks(r: &Rendered) -> Vec<(String, (usize, usize))> {
    let mut out = Vec::new();
    let mut from = 0;
    while let Some(i) = r.text[from..].find("<block name=\"s") {
        let at = from + i;
        let rest = &r.text[at + 13..];
        let end = rest.find('"').unwrap_or(0);
        out.push((rest[..end].to_string(), pos_at(&r.text, at)));
        from = at + 10;
    }
    out
}

#[derive(Clone, Copy, PartialEq, Eq)]
pub enum Mode {
    Blocks,  // C03
    Tags,    // C05
    Damaged, // C12
}

pub fn generate(mode: Mode, rng: &mut Rng, idx: usize, _tier: Tier) -> CaseOut {
    let mut all: Vec<&'static str> = LANGS.iter().map(|l| l.name).collect();
    all.push("markdown");
    let tag_langs = vec!["python", "c", "rust", "html", "js", "sql", "php", "csharp", "java"];
    let knobs = match mode {
        Mode::Blocks => Knobs { rich_tags: rng.chance(1, 3), multiline_ws: true, lookalikes: rng.chance(1, 3), max_depth: 4, langs: all, echo: true },
        Mode::Tags => Knobs { rich_tags: true, multiline_ws: true, lookalikes: true, max_depth: 1, langs: tag_langs, echo: false },
        Mode::Damaged => Knobs { rich_tags: idx % 2 == 0, multiline_ws: false, lookalikes: idx % 3 == 1, max_depth: if idx % 4 == 0 { 0 } else { 3 }, langs: all, echo: false },
    };
    let lang = lang(knobs.langs[idx % knobs.langs.len()]);
    let mut knobs = knobs;
    if lang.family == Family::Md {
        // titles of reference definitions cannot hold their own delimiter; keep tags simple
        knobs.rich_tags = false;
        knobs.lookalikes = false;
    }
    let mut counter = 0;
    let mut budget = rng.range(1, 6);
    let mut nodes = gen_nodes(lang, rng, &knobs, 0, &mut counter, &mut budget);
    if counter == 0 {
        let start = place(lang, rng, &knobs, true);
        let mut end = place(lang, rng, &knobs, true);
        while lang.family == Family::Md && matches!(start.form, Form::Line(_)) != matches!(end.form, Form::Line(_)) {
            end = place(lang, rng, &knobs, true);
        }
        nodes.push(GNode::Blk(GBlock { tag: TagSrc::simple(&[("name", "only")]), start, end, end_tag: "</block>".into(), body: vec![] }));
    }
    let crlf = rng.chance(1, 6);
    let r = render(&FileSpec { lang, nodes, crlf, final_newline: !rng.chance(1, 8) });
    let suffix = lang.suffixes[rng.below(lang.suffixes.len())];
    let path = if suffix == "Makefile" || suffix == "makefile" || suffix.starts_with("go.") { format!("d/{suffix}") } else { format!("d/f{}.{}", idx % 9, suffix) };
    let mut text = r.text.clone();
    let mut tags = vec![format!("lang:{}", lang.name), format!("blocks:{}", r.blocks.len().min(6)), format!("crlf:{crlf}")];
    let mut damage = None;
    if mode == Mode::Damaged {
        // delete or duplicate one tag occurrence: start tags by their by-construction extent, end tags by
        // their grammar (any inner whitespace), inside comments only
        let mut occ: Vec<(usize, usize)> = Vec::new();
        let line_starts: Vec<usize> = std::iter::once(0).chain(text.match_indices('\n').map(|(i, _)| i + 1)).collect();
        let off = |p: (usize, usize)| line_starts[p.0 - 1] + p.1 - 1;
        for b in &r.blocks {
            let (lo, hi) = (off(b.ts), off(b.te) + 1);
            occ.push((lo, hi - lo));
        }
        let end_re = regex::Regex::new(r"<\s*/\s*block\s*>").unwrap();
        for m in end_re.find_iter(&text) {
            if r.spans.iter().any(|s| s.lo <= m.start() && m.start() < s.hi) {
                occ.push((m.start(), m.end() - m.start()));
            }
        }
        if !occ.is_empty() {
            let (at, len) = occ[rng.below(occ.len())];
            let t = text[at..at + len].to_string();
            if rng.chance(1, 2) {
                text.replace_range(at..at + len, &" ".repeat(len));
                damage = Some(format!("deleted {t:?} at byte {at}"));
                tags.push("damage:delete".into());
            } else {
                text.insert_str(at + len, &format!(" {t}"));
                damage = Some(format!("duplicated {t:?} at byte {at}"));
                tags.push("damage:duplicate".into());
            }
        }
    }
    // expected list, by construction
    let multis = multi_blocks(&r);
    let mut exp: Vec<String> = r
        .blocks
        .iter()
        .map(|b| {
            let name = b.attrs.iter().find(|(k, _)| k == "name").map(|(_, v)| v.clone()).unwrap_or_else(|| "(unnamed)".to_string());
            format!("({}, mklblock {} {} {} false {})", cstr(&path), cstr(&name), b.ts.0, b.ts.1, emit::attrs(&b.attrs))
        })
        .collect();
    for (name, p) in &multis {
        exp.push(format!("({}, mklblock {} {} {} false [({}, {})])", cstr(&path), cstr(name), p.0, p.1, cstr("name"), cstr(name)));
    }
    let healthy_neighbours = mode == Mode::Damaged && rng.chance(1, 2);
    let mut files = vec![(path.clone(), text.clone())];
    if healthy_neighbours {
        files.insert(rng.below(2), ("d/ok.py".to_string(), "# <block name=\"fine\">\nx = 1\n# </block>\n".to_string()));
    }
    let spec = RunSpec { files, globs: vec!["**".into()], ..Default::default() };
    let out = imp::run(&spec);
    let (fcs, comments, _) = fcases(&spec);
    let exp_coq = if damage.is_some() { "None".to_string() } else { format!("(Some [{}])", exp.join("; ")) };
    let mut coq = format!("(check_list [{}] {} {})", fcs.join("; "), emit::lobs(&out.list), exp_coq);
    if damage.is_some() {
        // C12: the error names the unbalanced file (whatever its wording)
        let names_file = match &out.list {
            Outcome::Err(_, msg) => msg.contains(path.as_str()),
            _ => true,
        };
        coq = format!("(both_verdicts {coq} {})", if names_file { 0 } else { 2 });
        tags.push(format!("error-names-file:{names_file}"));
    }
    // by-construction comment spans vs the spans the grammar produced (C03's grammar-level claim)
    let main_idx = spec.files.iter().position(|(p, _)| *p == path).unwrap();
    let mut recorded: Vec<(usize, usize)> = comments[main_idx].iter().map(|c| (c.lo, c.hi)).collect();
    let mut planned: Vec<(usize, usize)> = r.spans.iter().map(|s| (s.lo, s.hi)).collect();
    recorded.sort();
    planned.sort();
    if mode != Mode::Damaged && recorded != planned {
        tags.push("spans:differ".into());
    }
    if mode == Mode::Blocks {
        // contents: echoed by the script vs the text between the two comments, by construction
        let c4 = |f: &str, l: usize, c: usize, t: &str| format!("({}, {}, {}, {})", cstr(f), l, c, cstr(t));
        let exp_c: Vec<String> = r.blocks.iter().enumerate().filter(|(_, b)| b.attrs.iter().any(|(k, _)| k == "check-lua")).map(|(k, b)| c4(&path, b.ts.0, b.ts.1, content_of(&r, k))).collect();
        let obs_c: Vec<String> = match &out.run {
            Outcome::Ok((ds, _)) => ds.iter().filter(|d| d.code == "check-lua").map(|d| c4(&d.file, d.sl, d.sc, d.data.get(1).map(|s| s.as_str()).unwrap_or(""))).collect(),
            _ => vec![],
        };
        coq = format!("(check_blocks [{}] {} {} [{}] [{}] {})", fcs.join("; "), emit::lobs(&out.list), exp_coq, obs_c.join("; "), exp_c.join("; "), cbool(recorded == planned));
        tags.push(format!("contents:{}", obs_c.len().min(6)));
    }
    if let Outcome::Err(_, _) = &out.list {
        tags.push("outcome:error".into());
    }
    let key = text.clone();
    CaseOut {
        coq,
        json: json!({"input": spec_json(&spec), "damage": damage, "expected_blocks": r.blocks.iter().map(|b| json!({"attrs": b.attrs, "at": [b.ts.0, b.ts.1]})).collect::<Vec<_>>(),
                     "planned_comment_spans": planned, "recorded_comment_spans": recorded, "implementation": impl_json(&out)}),
        key,
        nontrivial: r.blocks.len() + multis.len() >= 1,
        tags,
    }
}

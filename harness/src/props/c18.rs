//! C18: check-lua through the real binary: one call per block, faithful
//! arguments, any script failure fails the run whatever the completion order.
use crate::cli::{self, CliRun};
use crate::common::*;
use crate::coqw::*;
use crate::emit::{self, Tables};
use crate::filegen::*;
use crate::imp::{Outcome, RunSpec};
use crate::prng::Rng;
use crate::props::mix;
use serde_json::json;

pub const HEADER: &str = "From BW Require Import SpecRun.";

const CONTENTS: [&str; 10] = ["plain", "two\nlines", "  padded  ", "é ü 日本 🙂", "quo\"te 'single'", "back\\slash \\n", "tab\there", "id=alpha rest", "", "x = { 1, 2 } -- lua-ish"];

fn busy_script(d: &str, n: usize) -> String {
    let p = format!("{d}/busy{n}.lua");
    let body = format!("function validate(ctx, content)\n  local s = 0\n  for i = 1, {} do s = s + i % 7 end\n  local keys = {{}}\n  for k, v in pairs(ctx.attrs) do keys[#keys + 1] = k .. '=' .. v end\n  table.sort(keys)\n  return ctx.file .. '|' .. tostring(ctx.line) .. '|' .. table.concat(keys, ';') .. '|' .. content\nend\n", n * 20000);
    if std::fs::read_to_string(&p).ok().as_deref() != Some(body.as_str()) {
        std::fs::write(&p, body).ok();
    }
    p
}

/// `/* <block ..> */ c0 /* </block> */ /* <block ..> */ c1 /* </block> */` - two or three blocks per line
fn render_inline(blocks: &[(TagSrc, String)], rng: &mut Rng) -> Rendered {
    let mut text = String::new();
    let mut out: Vec<ExpBlock> = Vec::new();
    let mut k = 0;
    while k < blocks.len() {
        let n = rng.range(2, 3).min(blocks.len() - k);
        for (tag, content) in &blocks[k..k + n] {
            text.push_str("/* ");
            let lo = text.len();
            text.push_str(&tag.render());
            let hi = text.len();
            text.push_str(" */");
            let clo = text.len();
            text.push(' ');
            text.push_str(content);
            text.push(' ');
            let chi = text.len();
            text.push_str("/* </block> */ ");
            out.push(ExpBlock { attrs: tag.map(), ts: (0, lo), te: (0, hi - 1), clo, chi, cs: (0, 0), ce: (0, 0), depth: 0 });
        }
        text.push('\n');
        k += n;
    }
    for b in out.iter_mut() {
        let (lo, hi) = (b.ts.1, b.te.1);
        b.ts = pos_at(&text, lo);
        b.te = pos_at(&text, hi);
        b.cs = pos_at(&text, b.clo);
        b.ce = pos_at(&text, b.chi);
    }
    Rendered { text, spans: Vec::new(), blocks: out }
}

pub fn generate(rng: &mut Rng, idx: usize, tier: Tier) -> CaseOut {
    let d = mix::scripts_dir();
    // mostly small sets; every fifth case is a large one (more tasks than any plausible concurrency cap)
    let nblocks = if idx % 5 == 4 { rng.range(33, 48) } else if tier == Tier::Thorough { rng.range(1, 40) } else { rng.range(1, 12) };
    let large = nblocks > 32;
    let nfiles = rng.range(1, 3);
    let fail_mode = idx % 3 == 2; // a third of the cases have at least one failing script
    let count_mode = idx % 5 == 0 && !fail_mode; // invocation counting through a side file (needs io: safe mode)
    let log = format!("{}/log_{}_{}.txt", d, std::process::id(), idx);
    let _ = std::fs::remove_file(&log);
    if count_mode {
        let body = "function validate(ctx, content)\n  local f = io.open(ctx.attrs.log, 'a')\n  f:write(ctx.attrs.name .. '\\n')\n  f:close()\n  return nil\nend\n";
        let p = format!("{d}/count.lua");
        if std::fs::read_to_string(&p).ok().as_deref() != Some(body) {
            std::fs::write(&p, body).ok();
        }
    }
    // every seventh case: several blocks per source line (block comments side by side), so that
    // blocks can only be told apart by column, never by (file, line)
    let same_line = idx % 7 == 3 && !count_mode;
    let failing = ["err.lua", "num.lua", "novalidate.lua", "syntax.lua", "missing.lua"];
    let fail_at = rng.below(nblocks);
    let mut per_file: Vec<Vec<GNode>> = vec![Vec::new(); nfiles];
    let langs = if same_line { ["js", "c", "rust"] } else { ["python", "js", "rust"] };
    let mut inline: Vec<Vec<(TagSrc, String)>> = vec![Vec::new(); nfiles];
    let mut plans: Vec<(usize, String, Vec<(String, String)>, String)> = Vec::new(); // (file, script name, attrs, content text)
    for b in 0..nblocks {
        let fi = rng.below(nfiles);
        let lang = lang(langs[fi % langs.len()]);
        // (same-line blocks get pairwise different contents: the Lua oracle is keyed by script, file:line and argument)
        let inline_content = format!("{}{b}", ["plain", "alpha", "x", "zeta"][rng.below(4)]);
        let content: &str = if same_line { inline_content.as_str() } else { CONTENTS[rng.below(CONTENTS.len())] };
        let script = if count_mode {
            "count.lua".to_string()
        } else if fail_mode && b == fail_at {
            failing[rng.below(failing.len())].to_string()
        } else if fail_mode && !large && rng.chance(1, 6) {
            failing[rng.below(failing.len())].to_string()
        } else if rng.chance(1, 5) && !(large && fail_mode) {
            "nil.lua".to_string()
        } else if large && fail_mode {
            // a single instantly failing script among many slow ones: its error must not get lost
            format!("busy{}.lua", 2 + rng.below(2))
        } else {
            format!("busy{}.lua", rng.below(4))
        };
        let spath = if let Some(n) = script.strip_prefix("busy").and_then(|s| s.strip_suffix(".lua")) { busy_script(&d, n.parse().unwrap_or(0)) } else { format!("{d}/{script}") };
        let mut attrs: Vec<(String, String)> = vec![("name".into(), format!("b{b}")), ("check-lua".into(), spath)];
        if count_mode {
            attrs.push(("log".into(), log.clone()));
        }
        match if same_line { 7 } else { rng.below(8) } {
            0 => attrs.push(("check-lua-pattern".into(), "id=(?P<value>[a-z]+)".into())),
            1 => attrs.push(("check-lua-pattern".into(), "[a-z]+".into())),
            // patterns whose match depends on the untrimmed content
            2 => attrs.push(("check-lua-pattern".into(), "^\\s+(?P<value>\\S+)".into())),
            3 => attrs.push(("check-lua-pattern".into(), "(?s)^\\n.*\\n$".into())),
            _ => {}
        }
        if rng.chance(1, 4) {
            attrs.push(("severity".into(), SEVERITIES[rng.below(SEVERITIES.len())].to_string()));
        }
        if rng.chance(1, 4) {
            attrs.push(("note".into(), "it's <ok> = fine".into()));
        }
        let aref: Vec<(&str, &str)> = attrs.iter().map(|(k, v)| (k.as_str(), v.as_str())).collect();
        let lines: Vec<String> = content.split('\n').map(|s| s.to_string()).collect();
        if same_line {
            inline[fi].push((TagSrc::simple(&aref), content.to_string()));
        } else {
            per_file[fi].push(simple_block(lang, rng, TagSrc::simple(&aref), &lines));
            per_file[fi].push(GNode::Text(lang.code[0].to_string()));
        }
        plans.push((fi, script, attrs, content.to_string()));
    }
    let mut files: Vec<(String, String)> = Vec::new();
    let mut rendered: Vec<Rendered> = Vec::new();
    for (fi, nodes) in per_file.into_iter().enumerate() {
        let lang = lang(langs[fi % langs.len()]);
        let r = if same_line { render_inline(&inline[fi], rng) } else { render(&FileSpec { lang, nodes, crlf: false, final_newline: true }) };
        files.push((format!("{}w{fi}.{}", ["", "src/", "a/b/"][fi % 3], lang.suffixes[0]), r.text.clone()));
        rendered.push(r);
    }
    // expectations and oracle table, by construction
    let mut tables = Tables::default();
    let mut exp: Vec<String> = Vec::new();
    let mut any_fail = false;
    let mut per_file_idx = vec![0usize; nfiles];
    for (fi, script, attrs, _) in &plans {
        let r = &rendered[*fi];
        let bi = per_file_idx[*fi];
        per_file_idx[*fi] += 1;
        let b = &r.blocks[bi];
        let content = content_of(r, bi);
        let get = |k: &str| attrs.iter().find(|(n, _)| n == k).map(|(_, v)| v.clone());
        let arg = match get("check-lua-pattern") {
            Some(p) => {
                tables.add_rx(&p, content);
                let re = regex::Regex::new(&p).unwrap();
                re.captures(content).map(|c| c.name("value").map(|m| m.as_str().to_string()).unwrap_or_else(|| c.get(0).unwrap().as_str().to_string())).unwrap_or_default()
            }
            None => content.trim().to_string(),
        };
        let path = &files[*fi].0;
        let spath = get("check-lua").unwrap();
        let sev = get("severity").map(|s| sev_num(&s)).unwrap_or(1);
        if script.starts_with("busy") {
            let mut kv: Vec<String> = b.attrs.iter().map(|(k, v)| format!("{k}={v}")).collect();
            kv.sort();
            let msg = format!("{}|{}|{}|{}", path, b.ts.0, kv.join(";"), arg);
            tables.lua.insert((spath.clone(), format!("{}:{}", path, b.ts.0), arg.clone()), (1, msg.clone()));
            exp.push(format!("({}, mkdiag {} {} {} {} 6 {} [{}; {}])", cstr(path), b.ts.0, b.ts.1, b.te.0, b.te.1, sev, cstr(&spath), cstr(&msg)));
        } else if script == "nil.lua" || script == "count.lua" {
            tables.lua.insert((spath.clone(), format!("{}:{}", path, b.ts.0), arg.clone()), (0, String::new()));
        } else {
            any_fail = true;
            tables.lua.insert((spath.clone(), format!("{}:{}", path, b.ts.0), arg.clone()), (2, String::new()));
        }
    }
    let spec = RunSpec { files: files.clone(), globs: vec!["**".into()], ..Default::default() };
    let workers = [1usize, 2, 4, 16][rng.below(4)];
    let cpus = if rng.chance(1, 3) { 1 } else { 0 };
    let mut env = vec![("TOKIO_WORKER_THREADS".to_string(), workers.to_string())];
    if count_mode {
        env.push(("BLOCKWATCH_LUA_MODE".into(), "safe".into()));
    }
    let c = cli::run(&CliRun { files: files.clone(), env, cpus, ..Default::default() });
    let (obs, _) = cli::interpret_run(&c);
    // exactly one invocation per block
    let mut once_ok = true;
    let mut counts = json!(null);
    if count_mode {
        let logged = std::fs::read_to_string(&log).unwrap_or_default();
        let _ = std::fs::remove_file(&log);
        let mut names: Vec<&str> = logged.lines().collect();
        names.sort();
        let mut want: Vec<String> = (0..nblocks).map(|b| format!("b{b}")).collect();
        want.sort();
        once_ok = names.iter().map(|s| s.to_string()).collect::<Vec<_>>() == want;
        counts = json!({"invocations_logged": names.len(), "blocks": nblocks});
    }
    let coq = format!(
        "(check_expected {} {} {} {})",
        mix::rcase_coq(&spec, &tables), emit::obs(&obs),
        if any_fail { "None".to_string() } else { format!("(Some [{}])", exp.join("; ")) }, cbool(once_ok)
    );
    let mut tags = vec![format!("same-line:{same_line}"), format!("blocks:{}", nblocks.min(13)), format!("workers:{workers}"), format!("pinned:{}", cpus == 1), format!("failing:{any_fail}"), format!("counted:{count_mode}")];
    match &obs {
        Outcome::Ok((ds, _)) => tags.push(format!("diagnostics:{}", ds.len().min(13))),
        Outcome::Err(c, _) => tags.push(format!("error-class:{c}")),
        Outcome::Panic(_) => tags.push("outcome:panic".into()),
    }
    CaseOut {
        coq,
        json: json!({"input": spec_json(&spec), "scripts": plans.iter().map(|(f, s, _, c)| json!([f, s, c])).collect::<Vec<_>>(), "workers": workers, "cpus": cpus, "counts": counts,
                     "cli": {"exit": c.code, "stderr_head": c.stderr.chars().take(600).collect::<String>()}}),
        key: format!("{}|{workers}|{cpus}", files.iter().map(|(_, t)| t.as_str()).collect::<Vec<_>>().join("|")),
        nontrivial: true,
        tags,
    }
}

//! C04: token soups and byte-level mutations of real sources under every
//! registered suffix, in scan, list and diff mode: the run must end with a
//! report or a readable error; the model (fed the comment spans the grammar
//! produced) must predict the same outcome.
use crate::cli::{self, CliRun};
use crate::common::*;
use crate::coqw::*;
use crate::diffgen::*;
use crate::emit::{self, Tables};
use crate::filegen::*;
use crate::imp::{self, Outcome, RunSpec};
use crate::prng::Rng;
use serde_json::json;
use std::sync::mpsc;

pub const HEADER: &str = "From BW Require Import SpecRun.";

const TOKENS: [&str; 71] = [
    "//", "/*", "*/", "#", "--", "<!--", "-->", "[//]: #", "[//]:", "(", ")", "\"", "'", "=begin", "=end", "///", "//!", "#!", "/**", "*",
    "<block", "</block>", "<block>", "<block name=\"x\">", "name=", "\"x", ">", "<", "/", "=", "<block keep-sorted>", "<block line-count=\"<1\">",
    "<block keep-unique severity='hint'>", "</ block >", "<block\n", "affects=\":x\"",
    "\n", "\n", "\n", "\r\n", "\t", " ", " ", "\u{a0}", "\u{301}", "\u{200b}", "🙂", "é", "日本", "\\", "`", "```", "${", "}", "{", "[", "]", ";",
    "a", "b1", "fn f() {}", "x = 1", "<?php", "?>",
    // whole link reference definitions (Markdown comments) with lone or odd title delimiters
    "\n[//]: don't-edit\n", "\n[//]: a\"b\n", "\n[//]: # \"\n", "\n[//]: # (x\n", "\n[//]: # 'x' y\n", "\n[//]: #\n'\n", "\n\n[//]: # )(\n",
];

fn soup(rng: &mut Rng) -> String {
    let n = rng.range(1, 40);
    let mut s = String::new();
    for _ in 0..n {
        s.push_str(TOKENS[rng.below(TOKENS.len())]);
        if rng.chance(1, 3) {
            s.push(' ');
        }
    }
    s
}

fn mutate(rng: &mut Rng, text: &str) -> String {
    let mut chars: Vec<char> = text.chars().collect();
    for _ in 0..rng.range(1, 6) {
        if chars.is_empty() {
            break;
        }
        let i = rng.below(chars.len());
        match rng.below(4) {
            0 => { chars.remove(i); }
            1 => { let t: Vec<char> = TOKENS[rng.below(TOKENS.len())].chars().collect(); for (k, c) in t.into_iter().enumerate() { chars.insert(i + k, c); } }
            2 => { let j = rng.below(chars.len()); chars.swap(i, j); }
            _ => { let end = (i + rng.range(1, 30)).min(chars.len()); chars.drain(i..end); }
        }
    }
    chars.into_iter().filter(|c| *c != '\0').collect()
}

fn testdata(rng: &mut Rng) -> String {
    let dir = "/repo/tests/testdata";
    let mut names: Vec<String> = std::fs::read_dir(dir).map(|d| d.filter_map(|e| e.ok()).filter(|e| e.path().is_file()).map(|e| e.path().display().to_string()).collect()).unwrap_or_default();
    names.sort();
    if names.is_empty() {
        return "# <block name=\"x\">\n# </block>\n".to_string();
    }
    // rules that need an oracle (regex, scripts, endpoint) are defused: this property is about crashes
    std::fs::read_to_string(&names[rng.below(names.len())]).unwrap_or_default()
        .replace("check-lua", "x-lua").replace("check-ai", "x-ai").replace("line-pattern", "line-pat")
        .replace("keep-sorted-pattern", "ks-pat").replace("keep-unique=", "ku=").replace("keep-sorted-format", "ks-format")
}

fn run_with_watchdog(spec: &RunSpec) -> imp::ImplOut {
    let (tx, rx) = mpsc::channel();
    let s = spec.clone();
    std::thread::Builder::new().stack_size(64 << 20).spawn(move || { let _ = tx.send(imp::run(&s)); }).ok();
    match rx.recv_timeout(std::time::Duration::from_secs(20)) {
        Ok(o) => o,
        Err(_) => imp::ImplOut { changes: Outcome::Panic("timeout".into()), list: Outcome::Panic("timeout".into()), run: Outcome::Panic("timeout".into()) },
    }
}

pub fn generate(rng: &mut Rng, idx: usize, _tier: Tier) -> CaseOut {
    let all_langs: Vec<&'static Lang> = LANGS.iter().chain(std::iter::once(&MARKDOWN)).collect();
    let all_suffixes: Vec<&'static str> = all_langs.iter().flat_map(|l| l.suffixes.iter().copied()).collect();
    let suffix = all_suffixes[idx % all_suffixes.len()];
    let mode = (idx / all_suffixes.len()) % 3; // 0 scan, 1 scan+list focus, 2 diff
    let text = if rng.chance(3, 5) { soup(rng) } else { let t = testdata(rng); mutate(rng, &t) };
    let path = if suffix == "Makefile" || suffix == "makefile" || suffix.starts_with("go.") { suffix.to_string() } else { format!("z/f.{suffix}") };
    let mut pairs: Option<(Vec<String>, Vec<String>)> = None;
    let diff = if mode == 2 {
        let (lines, nl) = split_lines(&text);
        let n = lines.len();
        if n == 0 { None } else {
            // a few groups over the soup's lines; lines may look like diff headers (that is the point)
            let t = rng.range(1, n);
            let added = rng.range(1, (n + 1 - t).min(3));
            let g = Group { t, added, deleted: (0..rng.below(3)).map(|_| TOKENS[rng.below(TOKENS.len())].replace(['\n', '\r'], " ")).collect() };
            // `str::lines` in the diff parser drops a trailing '\r' of every diff line
            let strip = |s: &String| s.strip_suffix('\r').unwrap_or(s).to_string();
            pairs = Some((g.deleted.iter().map(strip).collect(), (0..g.added).map(|k| strip(&lines[g.t - 1 + k])).collect()));
            let fd = FileDiff { path: path.clone(), old_path: None, old_lines: old_from(&lines, &[g.clone()]), new_lines: lines, groups: vec![g], old_final_nl: nl, new_final_nl: nl, new_file: false, deleted_file: false };
            Some(render_file(&fd, rng.below(4), rng))
        }
    } else { None };
    let spec = RunSpec { files: vec![(path.clone(), text.clone())], globs: if mode == 2 { vec![] } else { vec!["**".into()] }, diff: diff.clone(), ..Default::default() };
    let out = run_with_watchdog(&spec);
    let (_, comments, hook_panicked) = fcases(&spec);
    let fam = family_of_path(&path, &[]);
    let spans: Vec<String> = comments[0].iter().map(|c| {
        let raw = text.get(c.lo..c.hi).unwrap_or("");
        format!("mkspan {} {} {} {}", c.lo, c.hi, fam.map(|f| kind_of(f, raw, c.group)).unwrap_or(K_RAW), c.group)
    }).collect();
    // char-level diffs the model may ask for: every (deleted, added) pair of the group
    let mut cd: Vec<String> = Vec::new();
    if let Some((dels, adds)) = &pairs {
        let mut seen = std::collections::BTreeSet::new();
        for a in dels {
            for b in adds {
                if !seen.insert((a.to_string(), b.to_string())) { continue; }
                let td = similar::TextDiff::from_chars(a.as_str(), b.as_str());
                let ops: Vec<String> = td.ops().iter().map(|op| match *op {
                    similar::DiffOp::Equal { old_index, new_index, len } => format!("DEqual {old_index} {new_index} {len}"),
                    similar::DiffOp::Delete { old_index, old_len, new_index } => format!("DDelete {old_index} {old_len} {new_index}"),
                    similar::DiffOp::Insert { old_index, new_index, new_len } => format!("DInsert {old_index} {new_index} {new_len}"),
                    similar::DiffOp::Replace { old_index, old_len, new_index, new_len } => format!("DReplace {old_index} {old_len} {new_index} {new_len}"),
                }).collect();
                cd.push(format!("({}, {}, [{}])", cstr(a), cstr(b), ops.join("; ")));
            }
        }
    }
    let rcase = format!("(mkrcase [(mkrfile {} {} [{}] true true false)] {} {} [] [] [] {} [{}])", cstr(&path), cstr(&text), spans.join("; "), copt(&diff, |d| cstr(d)), cbool(mode != 2), Tables::default().coq(), cd.join("; "));
    let cobs = match &out.changes {
        Outcome::Ok(m) => format!("(CObs [{}])", m.iter().map(|(p, lcs)| format!("({}, [{}])", cstr(p), lcs.iter().map(|(l, r)| format!("mklc {} {}", l, copt(r, |rs| clist(rs, |(a, b)| format!("({a}, {b})"))))).collect::<Vec<_>>().join("; "))).collect::<Vec<_>>().join("; ")),
        Outcome::Err(_, _) => "CObsErr".to_string(),
        Outcome::Panic(_) => "CObsPanic".to_string(),
    };
    // the real binary on the same input, every fourth case
    let mut cli_ok = true;
    let mut cli_json = json!(null);
    if idx % 4 == 0 {
        let args: Vec<String> = if mode == 1 { vec!["list".into()] } else { vec![] };
        let c = cli::run(&CliRun { files: spec.files.clone(), args, stdin: diff.clone(), ..Default::default() });
        cli_ok = !c.timed_out && !c.signal && matches!(c.code, Some(0) | Some(1)) && !c.stderr.contains("panicked at");
        cli_json = json!({"exit": c.code, "timed_out": c.timed_out, "stderr_head": c.stderr.chars().take(300).collect::<String>()});
    }
    let coq = format!("(check_robust {} {} {} {} {})", rcase, cobs, emit::lobs(&out.list), emit::obs(&out.run), cbool(cli_ok && !hook_panicked));
    let mut tags = vec![format!("suffix:{suffix}"), format!("mode:{}", ["scan", "list", "diff"][mode]), format!("comments:{}", comments[0].len().min(8))];
    match &out.list {
        Outcome::Ok(l) => tags.push(format!("blocks:{}", l.len().min(4))),
        Outcome::Err(c, _) => tags.push(format!("error-class:{c}")),
        Outcome::Panic(m) => tags.push(format!("PANIC:{}", m.chars().take(40).collect::<String>())),
    }
    CaseOut {
        coq,
        json: json!({"input": spec_json(&spec), "implementation": impl_json(&out), "cli": cli_json,
                     "panic": match (&out.list, &out.run) { (Outcome::Panic(m), _) | (_, Outcome::Panic(m)) => json!(m), _ => json!(null) }}),
        key: format!("{path}|{mode}|{text}"),
        nontrivial: !comments[0].is_empty(),
        tags,
    }
}

//! C06 keep-sorted, C07 keep-unique, C08 line-pattern (and the key-range half of
//! C10): sibling blocks whose content lines come from small alphabets of
//! ordered / equal / prefix-related / indented / blank / numeric-looking lines.
use crate::common::*;
use crate::coqw::*;
use crate::emit::{self, Tables};
use crate::filegen::*;
use crate::imp::{self, RunSpec};
use crate::prng::Rng;
use serde_json::json;

pub const HEADER: &str = "From BW Require Import SpecKeys.";

#[derive(Clone, Copy, PartialEq, Eq, Debug)]
pub enum Rule {
    Sorted,
    Unique,
    Pattern,
}

#[derive(Clone, Debug)]
pub struct Plan {
    pub rule: Rule,
    pub asc: bool,
    pub dir_text: String,
    pub pat: String,
    pub numeric: bool,
    pub fmt_text: Option<String>,
    pub lines: Vec<String>,
    pub sev: Option<&'static str>,
    /// a second rule on the same block that can never report anything (its pattern matches no line):
    /// the block's own rule must still be detected and run
    pub neutral: bool,
}

const LEX: [&str; 11] = ["a", "b", "ab", " a", "a ", "", "  ", "B", "a1", "\u{a0}b", "\u{3000}ab "];
// (leading zeros: 007 < 10 and 07 = 7 as numbers, whatever their digit counts)
const NUM: [&str; 12] = ["2", "10", "9.5", "-3", "0", "-0", "1e3", "", " 7 ", "007", "07", "100"];
const NUM_BAD: [&str; 3] = ["x", "1_0", "--2"];
const GROUP_PAT: &str = "id=(?P<value>[^ ]+)";
const GROUP_LEX: [&str; 8] = ["id=a x", "id=b y", "id=a z", "w id=ab", "noid", "", "  id=b", "id=B"];
const GROUP_NUM: [&str; 9] = ["id=10", "id=2 q", "id=9.5", "w id=-3", "noid", "", "id=0", "id=007", "id=07"];
const PLAIN_LEX_PAT: &str = "[a-z]+[0-9]*";
const PLAIN_LEX: [&str; 7] = [".. a1 ..", "b2", "..ab", ". .", "", " a1", "b2 a1"];
const PLAIN_NUM_PAT: &str = "-?[0-9]+(\\.[0-9]+)?";
const PLAIN_NUM: [&str; 9] = ["10 .", ".. 2", "9.5", "-3 ..", "..", "", "2 10", "007", ".. 07"];
const DIRS: [(&str, bool); 7] = [("asc", true), ("desc", false), ("", true), ("ASC", true), ("Desc", false), (" ", true), ("dEsC", false)];

const UNIQ: [&str; 11] = ["a", "b", " a", "a ", "a  b", "A", "", "  ", "\ta", "\u{a0}a", "\u{3000} b"];
const UNIQ_GROUP_PAT: &str = "id=(?P<value>\\w+)";
const UNIQ_GROUP: [&str; 7] = ["id=a x", "id=a y", "id=b", "x id=a", "noid", "", "id=ab"];
const UNIQ_PLAIN_PAT: &str = "\\w+";
// the value group is defined but does not take part in every match: such a line's key is its whole match
const OPT_GROUP_PAT: &str = "^(?:id=(?P<value>\\w+)|name:\\w+)";
const OPT_GROUP: [&str; 8] = ["name:bob x", "id=a", "name:bob y", "id=b", "name:al", "", "id=a z", "other"];
const UNIQ_PLAIN: [&str; 7] = ["a x", "a y", "b", " a", "..", "", ".. b"];

const LP_PATS: [&str; 6] = ["^[a-z]+$", "[0-9]", "^k", "[0-9]+$", "^(abc|k9)$", "b"];
// (lines of Unicode-only whitespace are blank; U+000B is whitespace for trim())
const LP: [&str; 14] = ["abc", "ab1", " abc ", "k9", "9k", "", "  ", "ABC", "\tb", "\u{a0}9k", "\u{3000}ABC\u{a0}", "\u{a0}", "\u{3000}\u{2003}", "\u{b}"];

const UNI: [&str; 6] = ["é", "ü1", "日本", "a", "éa", "z"];

fn seq(rng: &mut Rng, alphabet: &[&str], idx: usize, tier: Tier) -> Vec<String> {
    // lengths 0..=5 from the alphabet; idx drives short sequences systematically, the rest is random
    let n = alphabet.len();
    let mut v = Vec::new();
    let small = 1 + n + n * n + n * n * n;
    let k = idx % (small * 2);
    if k < small {
        // exhaustive over lengths 0..=3
        let mut rest = k;
        let mut len = 0;
        let mut block = 1;
        while rest >= block {
            rest -= block;
            block *= n;
            len += 1;
        }
        for _ in 0..len {
            v.push(alphabet[rest % n].to_string());
            rest /= n;
        }
    } else {
        let len = if rng.chance(1, 10) { rng.range(6, if tier == Tier::Thorough { 30 } else { 12 }) } else { rng.range(4, 5) };
        for _ in 0..len {
            v.push(rng.pick(alphabet).to_string());
        }
    }
    v
}

/// The regex crate accepts two spellings of a named group, `(?P<value>..)` and `(?<value>..)`,
/// and non-capturing or unnamed groups beside it; all of them name the same key.
fn respell(rng: &mut Rng, pat: &str) -> String {
    if !pat.contains("(?P<value>") {
        return pat.to_string();
    }
    match rng.below(4) {
        0 => pat.replace("(?P<value>", "(?<value>"),
        1 => pat.replace("id=", "(?:id)(=)"),
        _ => pat.to_string(),
    }
}

pub fn plan(rule: Rule, rng: &mut Rng, idx: usize, tier: Tier) -> Plan {
    let sev = if rng.chance(1, 5) { Some(*rng.pick(SEVERITIES)) } else { None };
    match rule {
        Rule::Sorted => {
            let (dir_text, asc) = DIRS[rng.below(DIRS.len())];
            let mode = rng.below(7) % 4; // 0 plain, 1 group, 2 whole match, 3 optional group (rarer)
            let numeric = rng.chance(2, 5) && mode != 3;
            let fmt_text = if numeric {
                Some(rng.pick(&["numeric", "NUMERIC", " Numeric "]).to_string())
            } else if rng.chance(1, 4) {
                Some(rng.pick(&["lexicographic", "", "Lexicographic"]).to_string())
            } else {
                None
            };
            let (pat, alphabet): (&str, Vec<&str>) = match (mode, numeric) {
                (0, false) => ("", LEX.to_vec()),
                (0, true) => ("", if rng.chance(1, 12) { [&NUM[..], &NUM_BAD[..]].concat() } else { NUM.to_vec() }),
                (1, false) => (GROUP_PAT, GROUP_LEX.to_vec()),
                (1, true) => (GROUP_PAT, GROUP_NUM.to_vec()),
                (3, _) => (OPT_GROUP_PAT, OPT_GROUP.to_vec()),
                (_, false) => (PLAIN_LEX_PAT, PLAIN_LEX.to_vec()),
                (_, true) => (PLAIN_NUM_PAT, PLAIN_NUM.to_vec()),
            };
            let mut lines = seq(rng, &alphabet, idx / 3, tier);
            if !numeric && mode == 0 && rng.chance(1, 8) {
                // Unicode keys: code point order
                lines = (0..rng.range(2, 6)).map(|_| rng.pick(&UNI).to_string()).collect();
            }
            Plan { rule, asc, dir_text: dir_text.to_string(), pat: respell(rng, pat), numeric, fmt_text, lines, sev, neutral: false }
        }
        Rule::Unique => {
            let mode = idx % 4;
            let (pat, alphabet): (&str, &[&str]) = match mode {
                0 => ("", &UNIQ),
                1 => (UNIQ_GROUP_PAT, &UNIQ_GROUP),
                2 => (OPT_GROUP_PAT, &OPT_GROUP),
                _ => (UNIQ_PLAIN_PAT, &UNIQ_PLAIN),
            };
            let lines = seq(rng, alphabet, idx / 3, tier);
            Plan { rule, asc: true, dir_text: String::new(), pat: respell(rng, pat), numeric: false, fmt_text: None, lines, sev, neutral: rng.chance(1, 5) }
        }
        Rule::Pattern => {
            let pat = LP_PATS[idx % LP_PATS.len()];
            let mut lines = seq(rng, &LP, idx / LP_PATS.len(), tier);
            if rng.chance(1, 10) {
                lines.push(rng.pick(&UNI).to_string());
            }
            Plan { rule, asc: true, dir_text: String::new(), pat: pat.to_string(), numeric: false, fmt_text: None, lines, sev, neutral: rng.chance(1, 5) }
        }
    }
}

pub fn attrs_of(p: &Plan, name: Option<&str>) -> Vec<(String, String)> {
    let mut a: Vec<(String, String)> = Vec::new();
    if let Some(n) = name {
        a.push(("name".into(), n.into()));
    }
    match p.rule {
        Rule::Sorted => {
            a.push(("keep-sorted".into(), p.dir_text.clone()));
            if !p.pat.is_empty() {
                a.push(("keep-sorted-pattern".into(), p.pat.clone()));
            }
            if let Some(f) = &p.fmt_text {
                a.push(("keep-sorted-format".into(), f.clone()));
            }
        }
        Rule::Unique => {
            if p.neutral {
                a.push(("keep-sorted".into(), "asc".into()));
                a.push(("keep-sorted-pattern".into(), "@@never@@".into()));
            }
            a.push(("keep-unique".into(), p.pat.clone()));
        }
        Rule::Pattern => {
            if p.neutral {
                a.push(("keep-unique".into(), "@@never@@".into()));
            }
            a.push(("line-pattern".into(), p.pat.clone()));
        }
    }
    if let Some(s) = p.sev {
        a.push(("severity".into(), s.into()));
    }
    a
}

pub fn rule_code(r: Rule) -> u32 {
    match r {
        Rule::Sorted => 1,
        Rule::Unique => 2,
        Rule::Pattern => 3,
    }
}

pub fn intent_coq(p: &Plan, b: &ExpBlock, content: &str) -> String {
    format!(
        "(mkintentK {} {} {} {} {} {} {} {})",
        emit::pos(b.ts),
        emit::pos(b.cs),
        cstr(content),
        rule_code(p.rule),
        cbool(p.asc),
        cstr(&p.pat),
        cbool(p.numeric),
        p.sev.map(sev_num).unwrap_or(1)
    )
}

/// languages in which arbitrary short tokens on a line are syntactically harmless
const PERMISSIVE: [&str; 3] = ["bash", "ruby", "js"];

pub fn generate(rule: Rule, rng: &mut Rng, idx: usize, tier: Tier) -> CaseOut {
    let lang = lang(PERMISSIVE[idx % PERMISSIVE.len()]);
    let nblocks = if rng.chance(2, 3) { 1 } else { rng.range(2, 3) };
    let mut nodes = Vec::new();
    let mut plans = Vec::new();
    let mut tags = vec![format!("lang:{}", lang.name)];
    for bi in 0..nblocks {
        let pidx = if bi == 0 { idx } else { rng.below(1 << 20) };
        let p = plan(rule, rng, pidx, tier);
        let name = format!("b{bi}");
        let attrs = attrs_of(&p, if rng.chance(1, 2) { Some(name.as_str()) } else { None });
        let attrs_ref: Vec<(&str, &str)> = attrs.iter().map(|(k, v)| (k.as_str(), v.as_str())).collect();
        let tag = TagSrc::simple(&attrs_ref);
        let mut body: Vec<String> = p.lines.clone();
        let mut start = if lang.block.is_some() && rng.chance(1, 4) { Place::block_one() } else { Place::line() };
        // content on the tag's own line: the first key follows the comment
        if matches!(start.form, Form::BlockOne) && !body.is_empty() && rng.chance(1, 2) {
            start.trailing = body.remove(0);
            tags.push("content-on-tag-line".into());
        }
        if rng.chance(1, 6) {
            start.indent = "   ".into();
        }
        let end = if lang.block.is_some() && rng.chance(1, 5) { Place::block_one() } else { Place::line() };
        nodes.push(GNode::Blk(GBlock { tag, start, end, end_tag: "</block>".into(), body: body.into_iter().map(GNode::Text).collect() }));
        if rng.chance(1, 3) {
            nodes.push(GNode::Text(lang.code[rng.below(lang.code.len())].to_string()));
        }
        tags.push(format!("len:{}", p.lines.len().min(6)));
        tags.push(format!("pattern:{}", if p.pat.is_empty() { "none" } else if p.pat.contains("value") { "group" } else { "plain" }));
        if rule == Rule::Sorted {
            tags.push(format!("dir:{:?}", p.dir_text));
            tags.push(format!("format:{}", if p.numeric { "numeric" } else { "lexicographic" }));
        }
        plans.push(p);
    }
    let r = render(&FileSpec { lang, nodes, crlf: rng.chance(1, 8), final_newline: !rng.chance(1, 10) });
    let path = format!("d/f{}.{}", idx % 5, lang.suffixes[rng.below(lang.suffixes.len())]);
    let spec = RunSpec { files: vec![(path.clone(), r.text.clone())], globs: vec!["**".into()], ..Default::default() };
    let out = imp::run(&spec);
    let (fcs, _, _) = fcases(&spec);
    let mut tables = Tables::default();
    let mut intents = Vec::new();
    let mut jint = Vec::new();
    for (k, b) in r.blocks.iter().enumerate() {
        let content = content_of(&r, k);
        tables.add_block(&b.attrs, content);
        intents.push(intent_coq(&plans[k], b, content));
        jint.push(json!({"tag_at": [b.ts.0, b.ts.1], "rule": format!("{:?}", plans[k].rule), "direction": plans[k].dir_text,
                         "pattern": plans[k].pat, "numeric": plans[k].numeric, "lines": plans[k].lines}));
    }
    let coq = format!("(check_keys {} {} {} [{}])", tables.coq(), fcs[0], emit::obs(&out.run), intents.join("; "));
    let nontrivial = plans.iter().any(|p| p.lines.iter().filter(|l| !l.trim().is_empty()).count() >= 2);
    if let imp::Outcome::Ok((ds, _)) = &out.run {
        tags.push(format!("diagnostics:{}", ds.len().min(3)));
    } else {
        tags.push("outcome:error".into());
    }
    let key = format!("{}", r.text);
    CaseOut { coq, json: json!({"input": spec_json(&spec), "intents": jint, "implementation": impl_json(&out)}), key, nontrivial, tags }
}

//! A loopback stand-in for the chat-completions endpoint: records every request
//! (path, authorization header, decoded JSON body) and answers per script.
use std::io::{Read, Write};
use std::net::{TcpListener, TcpStream};
use std::sync::{Arc, Mutex};

#[derive(Clone, Debug)]
pub enum Behavior {
    Reply(String),
    Status(u16, bool), // (code, json body?)
    InvalidJson,
    NoChoices,
    NullContent,
    CloseMidBody,
}

#[derive(Clone, Debug)]
pub struct Recorded {
    pub path: String,
    pub auth: String,
    pub model: String,
    pub system: String,
    pub user: String,
    pub body_ok: bool,
}

pub struct FakeAi {
    pub port: u16,
    pub requests: Arc<Mutex<Vec<Recorded>>>,
    stop: Arc<Mutex<bool>>,
}

fn read_request(s: &mut TcpStream) -> Option<(String, Vec<(String, String)>, Vec<u8>)> {
    let mut buf = Vec::new();
    let mut tmp = [0u8; 4096];
    let header_end;
    loop {
        let n = s.read(&mut tmp).ok()?;
        if n == 0 {
            return None;
        }
        buf.extend_from_slice(&tmp[..n]);
        if let Some(p) = buf.windows(4).position(|w| w == b"\r\n\r\n") {
            header_end = p + 4;
            break;
        }
        if buf.len() > 1 << 20 {
            return None;
        }
    }
    let head = String::from_utf8_lossy(&buf[..header_end]).to_string();
    let mut lines = head.split("\r\n");
    let request_line = lines.next()?.to_string();
    let headers: Vec<(String, String)> = lines.filter_map(|l| l.split_once(':').map(|(k, v)| (k.trim().to_ascii_lowercase(), v.trim().to_string()))).collect();
    let len: usize = headers.iter().find(|(k, _)| k == "content-length").and_then(|(_, v)| v.parse().ok()).unwrap_or(0);
    let mut body = buf[header_end..].to_vec();
    while body.len() < len {
        let n = s.read(&mut tmp).ok()?;
        if n == 0 {
            break;
        }
        body.extend_from_slice(&tmp[..n]);
    }
    Some((request_line, headers, body))
}

impl FakeAi {
    /// `decide` maps the decoded user message to a behaviour
    pub fn start<F: Fn(&str) -> Behavior + Send + Sync + 'static>(decide: F) -> FakeAi {
        let listener = TcpListener::bind(("127.0.0.1", 0)).expect("bind");
        let port = listener.local_addr().unwrap().port();
        listener.set_nonblocking(true).ok();
        let requests = Arc::new(Mutex::new(Vec::new()));
        let stop = Arc::new(Mutex::new(false));
        let (rq, st) = (requests.clone(), stop.clone());
        let decide = Arc::new(decide);
        std::thread::spawn(move || loop {
            if *st.lock().unwrap() {
                break;
            }
            match listener.accept() {
                Ok((mut s, _)) => {
                    s.set_nonblocking(false).ok();
                    s.set_read_timeout(Some(std::time::Duration::from_secs(5))).ok();
                    let rq = rq.clone();
                    let decide = decide.clone();
                    std::thread::spawn(move || {
                        // keep-alive: serve requests until the peer closes
                        while let Some((line, headers, body)) = read_request(&mut s) {
                            let path = line.split(' ').nth(1).unwrap_or("").to_string();
                            let auth = headers.iter().find(|(k, _)| k == "authorization").map(|(_, v)| v.clone()).unwrap_or_default();
                            let json: Option<serde_json::Value> = serde_json::from_slice(&body).ok();
                            let msg = |role: &str| {
                                json.as_ref()
                                    .and_then(|j| j["messages"].as_array().cloned())
                                    .and_then(|ms| ms.iter().find(|m| m["role"] == role).and_then(|m| m["content"].as_str().map(|s| s.to_string())))
                                    .unwrap_or_default()
                            };
                            let user = msg("user");
                            let rec = Recorded { path, auth, model: json.as_ref().and_then(|j| j["model"].as_str().map(|s| s.to_string())).unwrap_or_default(), system: msg("system"), user: user.clone(), body_ok: json.is_some() };
                            rq.lock().unwrap().push(rec);
                            let ok_body = |content: serde_json::Value, choices: bool| {
                                let mut v = serde_json::json!({"id": "chatcmpl-fake", "object": "chat.completion", "created": 1_700_000_000u64, "model": "fake", "choices": []});
                                if choices {
                                    v["choices"] = serde_json::json!([{"index": 0, "message": {"role": "assistant", "content": content}, "finish_reason": "stop"}]);
                                }
                                v.to_string()
                            };
                            let (code, ctype, body, close_early): (u16, &str, String, bool) = match decide(&user) {
                                Behavior::Reply(r) => (200, "application/json", ok_body(serde_json::json!(r), true), false),
                                Behavior::Status(c, true) => (c, "application/json", serde_json::json!({"error": {"message": "scripted fault", "type": "invalid_request_error", "param": null, "code": null}}).to_string(), false),
                                Behavior::Status(c, false) => (c, "text/plain", "scripted plain fault".to_string(), false),
                                Behavior::InvalidJson => (200, "application/json", "{\"id\": \"chatcmpl-fake\", \"choices\": [".to_string(), false),
                                Behavior::NoChoices => (200, "application/json", ok_body(serde_json::Value::Null, false), false),
                                Behavior::NullContent => (200, "application/json", ok_body(serde_json::Value::Null, true), false),
                                Behavior::CloseMidBody => (200, "application/json", ok_body(serde_json::json!("OK"), true), true),
                            };
                            let reason = match code { 200 => "OK", 400 => "Bad Request", 401 => "Unauthorized", 404 => "Not Found", _ => "Error" };
                            let head = format!("HTTP/1.1 {code} {reason}\r\nContent-Type: {ctype}\r\nContent-Length: {}\r\n\r\n", body.len());
                            if close_early {
                                let _ = s.write_all(head.as_bytes());
                                let _ = s.write_all(&body.as_bytes()[..body.len() / 2]);
                                let _ = s.flush();
                                let _ = s.shutdown(std::net::Shutdown::Both);
                                return;
                            }
                            if s.write_all(head.as_bytes()).is_err() || s.write_all(body.as_bytes()).is_err() {
                                return;
                            }
                            let _ = s.flush();
                        }
                    });
                }
                Err(_) => std::thread::sleep(std::time::Duration::from_millis(1)),
            }
        });
        FakeAi { port, requests, stop }
    }
    pub fn stop(&self) {
        *self.stop.lock().unwrap() = true;
    }
}

//! Source files assembled from a language's comment forms, with the comment
//! spans and the blocks known by construction.
use crate::prng::Rng;

// normaliser kinds (BW.Comment)
pub const K_HASH: u32 = 0;
pub const K_BASH: u32 = 1;
pub const K_C: u32 = 2;
pub const K_CLINE: u32 = 3;
pub const K_CBLOCK: u32 = 4;
pub const K_RUST_LINE: u32 = 5;
pub const K_PHP: u32 = 6;
pub const K_SQL_LINE: u32 = 7;
pub const K_CS: u32 = 8;
pub const K_XML: u32 = 9;
pub const K_MD_REF: u32 = 10;
pub const K_RAW: u32 = 11;

#[derive(Clone, Copy, Debug, PartialEq, Eq)]
pub enum Family {
    Hash,
    Bash,
    C,
    LineBlock,
    Rust,
    Php,
    Sql,
    Cs,
    Css,
    Xml,
    Md,
}

#[derive(Debug)]
pub struct Lang {
    pub name: &'static str,
    pub suffixes: &'static [&'static str],
    pub family: Family,
    /// line comment openers
    pub line: &'static [&'static str],
    /// block comment delimiters
    pub block: Option<(&'static str, &'static str)>,
    pub code: &'static [&'static str],
    /// a valid line of the language carrying an identifier-like token at `{}`
    pub wrap: &'static str,
    /// the grammar's line-comment node includes the `\r` of a CRLF line ending
    pub cr_in_line: bool,
    /// a code line holding a string literal; `{}` is replaced by a decoy tag
    pub decoy: Option<&'static str>,
    /// text every file must start with
    pub prelude: &'static str,
}

pub static LANGS: &[Lang] = &[
    Lang { name: "python", cr_in_line: true, suffixes: &["py", "pyi"], family: Family::Hash, line: &["#"], block: None, wrap: "{}",
           code: &["x = 1", "def f():", "    return 2", "y = [1, 2]"], decoy: Some("s = \"{}\""), prelude: "" },
    Lang { name: "ruby", cr_in_line: true, suffixes: &["rb"], family: Family::Hash, line: &["#"], block: None, wrap: "{}",
           code: &["x = 1", "y = 2"], decoy: Some("s = \"{}\""), prelude: "" },
    Lang { name: "toml", cr_in_line: false, suffixes: &["toml"], family: Family::Hash, line: &["#"], block: None, wrap: "{} = 1",
           code: &["a = 1", "b = \"x\""], decoy: Some("s = \"{}\""), prelude: "" },
    Lang { name: "yaml", cr_in_line: false, suffixes: &["yaml", "yml"], family: Family::Hash, line: &["#"], block: None, wrap: "{}: 1",
           code: &["a: 1", "b: x"], decoy: Some("s: \"{}\""), prelude: "" },
    Lang { name: "make", cr_in_line: true, suffixes: &["Makefile", "makefile", "mk"], family: Family::Hash, line: &["#"], block: None, wrap: "{} = 1",
           code: &["A = 1", "B := 2"], decoy: None, prelude: "" },
    Lang { name: "bash", cr_in_line: true, suffixes: &["sh", "bash"], family: Family::Bash, line: &["#"], block: None, wrap: "{}",
           code: &["x=1", "echo hi"], decoy: Some("s=\"{}\""), prelude: "" },
    Lang { name: "c", cr_in_line: true, suffixes: &["c"], family: Family::C, line: &["//"], block: Some(("/*", "*/")), wrap: "int {};",
           code: &["int x = 1;", "int y = 2;"], decoy: Some("const char *s = \"{}\";"), prelude: "" },
    Lang { name: "cpp", cr_in_line: true, suffixes: &["cc", "cpp", "h"], family: Family::C, line: &["//"], block: Some(("/*", "*/")), wrap: "int {};",
           code: &["int x = 1;", "int y = 2;"], decoy: Some("const char *s = \"{}\";"), prelude: "" },
    Lang { name: "go", cr_in_line: true, suffixes: &["go"], family: Family::C, line: &["//"], block: Some(("/*", "*/")), wrap: "var {} int",
           code: &["var x = 1", "var y = 2"], decoy: Some("var s = \"{}\""), prelude: "package main\n" },
    Lang { name: "gomod", cr_in_line: true, suffixes: &["go.mod", "go.sum", "go.work"], family: Family::C, line: &["//"], block: None, wrap: "var {} int",
           code: &["module example.com/m", "go 1.21"], decoy: None, prelude: "" },
    Lang { name: "js", cr_in_line: false, suffixes: &["js", "jsx"], family: Family::C, line: &["//"], block: Some(("/*", "*/")), wrap: "{};",
           code: &["const x = 1;", "let y = 2;"], decoy: Some("const s = \"{}\";"), prelude: "" },
    Lang { name: "ts", cr_in_line: false, suffixes: &["ts", "d.ts", "tsx"], family: Family::C, line: &["//"], block: Some(("/*", "*/")), wrap: "{};",
           code: &["const x = 1;", "let y = 2;"], decoy: Some("const s = \"{}\";"), prelude: "" },
    Lang { name: "java", cr_in_line: true, suffixes: &["java"], family: Family::LineBlock, line: &["//"], block: Some(("/*", "*/")), wrap: "class {} { }",
           code: &["class A { }", "interface B { }"], decoy: None, prelude: "" },
    Lang { name: "kotlin", cr_in_line: true, suffixes: &["kt", "kts"], family: Family::LineBlock, line: &["//"], block: Some(("/*", "*/")), wrap: "val {} = 1",
           code: &["val x = 1", "val y = 2"], decoy: Some("val s = \"{}\""), prelude: "" },
    Lang { name: "swift", cr_in_line: true, suffixes: &["swift"], family: Family::LineBlock, line: &["//"], block: Some(("/*", "*/")), wrap: "let {} = 1",
           code: &["let x = 1", "let y = 2"], decoy: Some("let s = \"{}\""), prelude: "" },
    Lang { name: "rust", cr_in_line: true, suffixes: &["rs"], family: Family::Rust, line: &["//", "///", "//!"], block: Some(("/*", "*/")), wrap: "fn {}() {}",
           code: &["fn f() {}", "const X: u8 = 1;"], decoy: Some("const S: &str = \"{}\";"), prelude: "" },
    Lang { name: "php", cr_in_line: false, suffixes: &["php", "phtml"], family: Family::Php, line: &["//", "#"], block: Some(("/*", "*/")), wrap: "${} = 1;",
           code: &["$x = 1;", "$y = 2;"], decoy: Some("$s = \"{}\";"), prelude: "<?php\n" },
    Lang { name: "sql", cr_in_line: true, suffixes: &["sql"], family: Family::Sql, line: &["--"], block: Some(("/*", "*/")), wrap: "SELECT {};",
           code: &["SELECT 1;", "SELECT 2;"], decoy: Some("SELECT '{}';"), prelude: "" },
    Lang { name: "csharp", cr_in_line: false, suffixes: &["cs"], family: Family::Cs, line: &["//", "///"], block: Some(("/*", "*/")), wrap: "class {} { }",
           code: &["class A { }", "class B { }"], decoy: None, prelude: "" },
    Lang { name: "css", cr_in_line: false, suffixes: &["css"], family: Family::Css, line: &[], block: Some(("/*", "*/")), wrap: "{} { }",
           code: &["a { color: red; }", "b { color: blue; }"], decoy: None, prelude: "" },
    Lang { name: "html", cr_in_line: false, suffixes: &["html", "htm"], family: Family::Xml, line: &[], block: Some(("<!--", "-->")), wrap: "<p>{}</p>",
           code: &["<p>x</p>", "<div>y</div>"], decoy: Some("<p title=\"{}\">z</p>"), prelude: "" },
    Lang { name: "xml", cr_in_line: false, suffixes: &["xml"], family: Family::Xml, line: &[], block: Some(("<!--", "-->")), wrap: "<p>{}</p>",
           code: &["<p>x</p>", "<q>y</q>"], decoy: None, prelude: "<r>\n" },
];

impl Lang {
    /// a syntactically valid content line of this language carrying `token`
    pub fn wrap_token(&self, token: &str) -> String {
        self.wrap.replacen("{}", token, 1)
    }
}

pub static MARKDOWN: Lang = Lang { name: "markdown", suffixes: &["md", "markdown"], family: Family::Md, line: &["[//]:"], block: Some(("<!--", "-->")),
    wrap: "{}", cr_in_line: false, code: &["Some paragraph text.", "More words here.", "# Title", "## Section", "### Deeper section", "## Another section"], decoy: Some("text `{}` more"), prelude: "" };

pub fn lang(name: &str) -> &'static Lang {
    if name == "markdown" {
        return &MARKDOWN;
    }
    LANGS.iter().find(|l| l.name == name).expect("language")
}

/// which normaliser the implementation's visitor applies to a comment node of
/// this family whose raw text is `raw` and which was consumed by sub-parse `group`
pub fn kind_of(family: Family, raw: &str, group: usize) -> u32 {
    match family {
        Family::Hash => K_HASH,
        Family::Bash => K_BASH,
        Family::C => K_C,
        Family::LineBlock => if raw.starts_with("/*") { K_CBLOCK } else { K_CLINE },
        Family::Rust => if raw.starts_with("/*") { K_CBLOCK } else { K_RUST_LINE },
        Family::Php => K_PHP,
        Family::Sql => if raw.starts_with("/*") { K_CBLOCK } else { K_SQL_LINE },
        Family::Cs => K_CS,
        Family::Css => K_CBLOCK,
        Family::Xml => K_XML,
        Family::Md => if group == 0 { K_MD_REF } else { K_RAW },
    }
}

/// family by registered suffix (mirror of the extension table; checked against
/// the reflected table by `reflect`)
pub fn family_of_suffix(suffix: &str) -> Option<Family> {
    if suffix == "md" || suffix == "markdown" {
        return Some(Family::Md);
    }
    LANGS.iter().find(|l| l.suffixes.contains(&suffix)).map(|l| l.family)
}

// ---------- tags ----------
#[derive(Clone, Debug)]
pub enum AVal {
    Bare(String),
    Sq(String),
    Dq(String),
}
#[derive(Clone, Debug)]
pub struct Attr {
    pub ws: String,
    pub name: String,
    /// whitespace before '=', after '=', value
    pub val: Option<(String, String, AVal)>,
}
#[derive(Clone, Debug)]
pub struct TagSrc {
    pub attrs: Vec<Attr>,
    pub ws_end: String,
}
impl TagSrc {
    pub fn simple(attrs: &[(&str, &str)]) -> TagSrc {
        TagSrc {
            attrs: attrs
                .iter()
                .map(|(n, v)| Attr {
                    ws: " ".into(),
                    name: n.to_string(),
                    val: Some((String::new(), String::new(), if v.contains('"') { AVal::Sq(v.to_string()) } else { AVal::Dq(v.to_string()) })),
                })
                .collect(),
            ws_end: String::new(),
        }
    }
    pub fn render(&self) -> String {
        let mut s = String::from("<block");
        for a in &self.attrs {
            s.push_str(&a.ws);
            s.push_str(&a.name);
            if let Some((w1, w2, v)) = &a.val {
                s.push_str(w1);
                s.push('=');
                s.push_str(w2);
                match v {
                    AVal::Bare(x) => s.push_str(x),
                    AVal::Sq(x) => { s.push('\''); s.push_str(x); s.push('\''); }
                    AVal::Dq(x) => { s.push('"'); s.push_str(x); s.push('"'); }
                }
            }
        }
        s.push_str(&self.ws_end);
        s.push('>');
        s
    }
    /// the attribute map the tag denotes: last duplicate wins; sorted by name
    pub fn map(&self) -> Vec<(String, String)> {
        let mut m: Vec<(String, String)> = Vec::new();
        for a in &self.attrs {
            let v = match &a.val {
                None => String::new(),
                Some((_, _, AVal::Bare(x))) | Some((_, _, AVal::Sq(x))) | Some((_, _, AVal::Dq(x))) => x.clone(),
            };
            if let Some(e) = m.iter_mut().find(|(k, _)| *k == a.name) {
                e.1 = v;
            } else {
                m.push((a.name.clone(), v));
            }
        }
        m.sort();
        m
    }
}

// ---------- comment placement ----------
#[derive(Clone, Debug)]
pub enum Form {
    /// `<opener> pre TAG post` up to the end of the line
    Line(usize),
    /// `/* pre TAG post */ trailing`
    BlockOne,
    /// opener line, `before` filler lines, the tag line, `after` filler lines, closer line
    BlockMulti { before: usize, after: usize, deco: bool },
}
#[derive(Clone, Debug)]
pub struct Place {
    pub form: Form,
    pub indent: String,
    pub pre: String,
    pub post: String,
    /// text after a bracketed comment on its last line
    pub trailing: String,
}
impl Place {
    pub fn line() -> Place {
        Place { form: Form::Line(0), indent: String::new(), pre: " ".into(), post: String::new(), trailing: String::new() }
    }
    pub fn block_one() -> Place {
        Place { form: Form::BlockOne, indent: String::new(), pre: " ".into(), post: " ".into(), trailing: String::new() }
    }
}

#[derive(Clone, Debug)]
pub struct GBlock {
    pub tag: TagSrc,
    pub start: Place,
    pub end: Place,
    pub end_tag: String,
    pub body: Vec<GNode>,
}
#[derive(Clone, Debug)]
pub enum GNode {
    /// a line of text outside comments (content or code), without its newline
    Text(String),
    Blk(GBlock),
    /// a comment without tags
    Note(Place, String),
    /// one comment holding several complete tags (text between them), e.g. same-comment blocks
    Multi(Place, Vec<String>),
    /// nested blocks whose start tags share one comment (and so one line): the start tags, the body, and
    /// the end tags - innermost first, one comment each, or all in one comment
    Nest { start: Place, tags: Vec<TagSrc>, body: Vec<GNode>, end: Place, ends_together: bool },
    /// source text around comments that sit INSIDE a string-like construct of the language (shell command
    /// substitution in a double-quoted string, a JS template substitution, a parenthesised Python string
    /// concatenation): `before` line, the inner nodes, `after` line
    Wrap { before: String, inner: Vec<GNode>, after: String },
    /// Markdown: a list item whose continuation holds the given nodes (html comments indented by two spaces)
    MdListItem(Vec<GNode>),
}

#[derive(Clone, Debug)]
pub struct Span {
    pub lo: usize,
    pub hi: usize,
    pub kind: u32,
    pub group: usize,
}
#[derive(Clone, Debug)]
pub struct ExpBlock {
    pub attrs: Vec<(String, String)>,
    pub ts: (usize, usize),
    pub te: (usize, usize),
    pub clo: usize,
    pub chi: usize,
    pub cs: (usize, usize),
    pub ce: (usize, usize),
    pub depth: usize,
}
#[derive(Clone, Debug, Default)]
pub struct Rendered {
    pub text: String,
    pub spans: Vec<Span>,
    pub blocks: Vec<ExpBlock>,
}

pub struct FileSpec {
    pub lang: &'static Lang,
    pub nodes: Vec<GNode>,
    pub crlf: bool,
    pub final_newline: bool,
}

struct W<'a> {
    /// Markdown: currently inside a list item (html comments are indented by two spaces)
    md_in_list: bool,
    lang: &'a Lang,
    buf: String,
    nl: &'static str,
    spans: Vec<Span>,
    blocks: Vec<ExpBlock>,
}

pub fn pos_at(buf: &str, off: usize) -> (usize, usize) {
    let pre = &buf[..off];
    let line = 1 + pre.bytes().filter(|b| *b == b'\n').count();
    let col = match pre.rfind('\n') {
        Some(i) => off - i,
        None => off + 1,
    };
    (line, col)
}

impl<'a> W<'a> {
    fn pos(&self) -> (usize, usize) {
        pos_at(&self.buf, self.buf.len())
    }
    fn line_kind(&self, opener: &str) -> u32 {
        kind_of(self.lang.family, opener, 0)
    }
    fn block_kind(&self) -> u32 {
        if self.lang.family == Family::Md {
            return K_RAW;
        }
        kind_of(self.lang.family, self.lang.block.map(|b| b.0).unwrap_or("/*"), 0)
    }
    fn block_group(&self) -> usize {
        if self.lang.family == Family::Md { 1 } else { 0 }
    }
    /// Markdown: both comment forms start a new block-level construct; keep a blank line before them
    fn md_break(&mut self) {
        if self.lang.family == Family::Md && !self.buf.is_empty() && !self.buf.ends_with("\n\n") {
            if !self.buf.ends_with('\n') {
                self.buf.push_str(self.nl);
            }
            self.buf.push_str(self.nl);
        }
    }
    /// writes a comment carrying `body` (pre+tags+post already joined by the caller through `emit`)
    /// returns (comment lo, comment hi); `emit` writes the inner text and may record positions
    fn comment<F: FnOnce(&mut W<'a>)>(&mut self, place: &Place, emit: F) -> (usize, usize) {
        self.md_break();
        if self.lang.family == Family::Md {
            if let Form::Line(i) = &place.form {
                // link reference definition used as a comment: [//]: # (text)
                let lo = self.buf.len();
                let (o, c) = if i % 2 == 0 { ("(", ")") } else { ("'", "'") };
                // CommonMark allows the title of a reference definition on the following line
                if i % 3 == 2 {
                    self.buf.push_str("[//]: #");
                    self.buf.push_str(self.nl);
                } else {
                    self.buf.push_str("[//]: # ");
                }
                self.buf.push_str(o);
                self.buf.push_str(&place.pre);
                emit(self);
                self.buf.push_str(&place.post);
                self.buf.push_str(c);
                self.buf.push_str(self.nl);
                // the node includes its line terminator
                let hi = self.buf.len();
                self.spans.push(Span { lo, hi, kind: K_MD_REF, group: 0 });
                self.buf.push_str(self.nl);
                return (lo, hi);
            }
        }
        let indent = if self.lang.family == Family::Md && !self.md_in_list { "" } else if self.lang.family == Family::Md { "  " } else { place.indent.as_str() };
        self.buf.push_str(indent);
        let lo = self.buf.len();
        match &place.form {
            Form::Line(i) => {
                let opener = self.lang.line[*i % self.lang.line.len().max(1)];
                self.buf.push_str(opener);
                self.buf.push_str(&place.pre);
                emit(self);
                self.buf.push_str(&place.post);
                let mut hi = self.buf.len();
                self.buf.push_str(self.nl);
                // grammar quirks: Rust doc comments include their line terminator; several
                // grammars include the `\r` of a CRLF ending in the line comment node
                if self.lang.family == Family::Rust && (opener == "///" || opener == "//!") {
                    hi = self.buf.len();
                } else if self.nl == "\r\n" && self.lang.cr_in_line {
                    hi += 1;
                }
                self.spans.push(Span { lo, hi, kind: self.line_kind(opener), group: 0 });
                (lo, hi)
            }
            Form::BlockOne => {
                let (o, c) = self.lang.block.expect("block form");
                self.buf.push_str(o);
                self.buf.push_str(&place.pre);
                emit(self);
                self.buf.push_str(&place.post);
                self.buf.push_str(c);
                let hi = self.buf.len();
                self.spans.push(Span { lo, hi, kind: self.block_kind(), group: self.block_group() });
                self.buf.push_str(&place.trailing);
                self.buf.push_str(self.nl);
                (lo, hi)
            }
            Form::BlockMulti { before, after, deco } => {
                let (o, c) = self.lang.block.expect("block form");
                // (Markdown: continuation lines follow the html block's own indentation, so that a block
                // inside a list item stays inside it)
                let base = if self.lang.family == Family::Md { indent.to_string() } else { place.indent.clone() };
                let lead = if *deco { format!("{base} * ") } else { format!("{base}   ") };
                self.buf.push_str(o);
                self.buf.push_str(self.nl);
                for k in 0..*before {
                    self.buf.push_str(&lead);
                    self.buf.push_str(&format!("filler {}", k));
                    self.buf.push_str(self.nl);
                }
                self.buf.push_str(&lead);
                self.buf.push_str(&place.pre);
                emit(self);
                self.buf.push_str(&place.post);
                self.buf.push_str(self.nl);
                for k in 0..*after {
                    self.buf.push_str(&lead);
                    self.buf.push_str(&format!("more {}", k));
                    self.buf.push_str(self.nl);
                }
                self.buf.push_str(&base);
                self.buf.push(' ');
                self.buf.push_str(c);
                let hi = self.buf.len();
                self.spans.push(Span { lo, hi, kind: self.block_kind(), group: self.block_group() });
                self.buf.push_str(&place.trailing);
                self.buf.push_str(self.nl);
                (lo, hi)
            }
        }
    }

    fn node(&mut self, n: &GNode, depth: usize) {
        match n {
            GNode::Text(t) => {
                if self.md_in_list {
                    self.buf.push_str("  ");
                }
                self.buf.push_str(t);
                self.buf.push_str(self.nl);
            }
            GNode::Note(place, text) => {
                let text = text.clone();
                self.comment(place, move |w| w.buf.push_str(&text));
            }
            GNode::Multi(place, parts) => {
                let parts = parts.clone();
                self.comment(place, move |w| {
                    for p in &parts {
                        w.buf.push_str(p);
                    }
                });
            }
            GNode::MdListItem(inner) => {
                self.md_break();
                self.buf.push_str("- item");
                self.buf.push_str(self.nl);
                self.buf.push_str(self.nl);
                let was = self.md_in_list;
                self.md_in_list = true;
                for c in inner {
                    self.node(c, depth);
                }
                self.md_in_list = was;
                self.buf.push_str(self.nl);
            }
            GNode::Wrap { before, inner, after } => {
                self.buf.push_str(before);
                self.buf.push_str(self.nl);
                for c in inner {
                    self.node(c, depth);
                }
                self.buf.push_str(after);
                self.buf.push_str(self.nl);
            }
            GNode::Nest { start, tags, body, end, ends_together } => {
                let mut at: Vec<((usize, usize), (usize, usize))> = Vec::new();
                let rendered: Vec<String> = tags.iter().map(|t| t.render()).collect();
                let (_, shi) = self.comment(start, |w| {
                    for (k, t) in rendered.iter().enumerate() {
                        if k > 0 {
                            w.buf.push(' ');
                        }
                        let ts = w.pos();
                        w.buf.push_str(t);
                        let p = w.pos();
                        at.push((ts, (p.0, p.1 - 1)));
                    }
                });
                let cs = pos_at(&self.buf, shi);
                let first = self.blocks.len();
                for (k, t) in tags.iter().enumerate() {
                    self.blocks.push(ExpBlock { attrs: t.map(), ts: at[k].0, te: at[k].1, clo: shi, chi: 0, cs, ce: (0, 0), depth: depth + k });
                }
                for c in body {
                    self.node(c, depth + tags.len());
                }
                if *ends_together {
                    let n = tags.len();
                    let (elo, _) = self.comment(end, move |w| w.buf.push_str(&vec!["</block>"; n].join(" ")));
                    for k in 0..n {
                        self.blocks[first + k].chi = elo;
                        self.blocks[first + k].ce = pos_at(&self.buf, elo);
                    }
                } else {
                    for k in (0..tags.len()).rev() {
                        let (elo, _) = self.comment(end, |w| w.buf.push_str("</block>"));
                        self.blocks[first + k].chi = elo;
                        self.blocks[first + k].ce = pos_at(&self.buf, elo);
                    }
                }
            }
            GNode::Blk(b) => {
                let tag = b.tag.render();
                let mut ts = (0, 0);
                let mut te = (0, 0);
                let (_, shi) = self.comment(&b.start, |w| {
                    ts = w.pos();
                    w.buf.push_str(&tag);
                    let p = w.pos();
                    te = (p.0, p.1 - 1);
                });
                let cs = pos_at(&self.buf, shi);
                let idx = self.blocks.len();
                self.blocks.push(ExpBlock { attrs: b.tag.map(), ts, te, clo: shi, chi: 0, cs, ce: (0, 0), depth });
                for c in &b.body {
                    self.node(c, depth + 1);
                }
                let end_tag = b.end_tag.clone();
                let (elo, _) = self.comment(&b.end, move |w| w.buf.push_str(&end_tag));
                self.blocks[idx].chi = elo;
                self.blocks[idx].ce = pos_at(&self.buf, elo);
            }
        }
    }
}

pub fn render(fs: &FileSpec) -> Rendered {
    let mut w = W { md_in_list: false, lang: fs.lang, buf: String::new(), nl: if fs.crlf { "\r\n" } else { "\n" }, spans: Vec::new(), blocks: Vec::new() };
    if fs.crlf {
        w.buf.push_str(&fs.lang.prelude.replace('\n', "\r\n"));
    } else {
        w.buf.push_str(fs.lang.prelude);
    }
    for n in &fs.nodes {
        w.node(n, 0);
    }
    if !fs.final_newline {
        let l = w.nl.len();
        if w.buf.ends_with(w.nl) {
            let n = w.buf.len() - l;
            w.buf.truncate(n);
        }
    }
    let n = w.buf.len();
    for s in w.spans.iter_mut() {
        s.hi = s.hi.min(n);
    }
    let mut blocks = w.blocks;
    blocks.sort_by_key(|b| b.ts);
    Rendered { text: w.buf, spans: w.spans, blocks }
}

/// a block with `lines` as its body, tags in line comments when the language has them
pub fn simple_block(lang: &Lang, rng: &mut Rng, tag: TagSrc, lines: &[String]) -> GNode {
    let line_ok = !lang.line.is_empty();
    let form = if line_ok && (lang.block.is_none() || rng.chance(2, 3)) { Form::Line(rng.below(4)) } else { Form::BlockOne };
    let start = Place { form: form.clone(), indent: String::new(), pre: " ".into(), post: if matches!(form, Form::Line(_)) { String::new() } else { " ".into() }, trailing: String::new() };
    let end = start.clone();
    GNode::Blk(GBlock { tag, start, end, end_tag: "</block>".into(), body: lines.iter().map(|l| GNode::Text(l.clone())).collect() })
}

//! Shared scaffolding for property generators.
use crate::emit;
use crate::filegen::{self, Family, Rendered};
use crate::imp::{self, Comment, ImplOut, Outcome, RunSpec};
use serde_json::json;

#[derive(Clone, Copy, PartialEq, Eq, Debug)]
pub enum Tier {
    Quick,
    Thorough,
}

pub struct CaseOut {
    /// Coq term of type N: the verdict of the case
    pub coq: String,
    /// human-readable description (evidence samples, replay files)
    pub json: serde_json::Value,
    /// canonical key for counting distinct cases
    pub key: String,
    pub nontrivial: bool,
    /// histogram buckets this case falls in
    pub tags: Vec<String>,
}

pub fn family_of_path(path: &str, ext: &[(String, String)]) -> Option<Family> {
    let name = path.rsplit('/').next().unwrap_or(path);
    let lookup = |e: &str| -> Option<Family> {
        let e2 = ext.iter().find(|(k, _)| k == e).map(|(_, v)| v.as_str()).unwrap_or(e);
        filegen::family_of_suffix(e2)
    };
    let idxs: Vec<usize> = name.match_indices('.').map(|(i, _)| i).collect();
    for i in idxs.into_iter().rev() {
        if let Some(f) = lookup(&name[i + 1..]) {
            return Some(f);
        }
    }
    lookup(name)
}

/// recorded comments per file (observation hook), as Coq `fcase` terms
pub fn fcases(spec: &RunSpec) -> (Vec<String>, Vec<Vec<Comment>>, bool) {
    let mut out = Vec::new();
    let mut all = Vec::new();
    let mut panicked = false;
    for (path, text) in &spec.files {
        let fam = family_of_path(path, &spec.ext);
        let comments = match imp::comments_of(path, text, &spec.ext) {
            Outcome::Ok(c) => c,
            Outcome::Panic(_) => {
                panicked = true;
                Vec::new()
            }
            Outcome::Err(_, _) => Vec::new(),
        };
        out.push(emit::fcase(path, text, &comments, fam));
        all.push(comments);
    }
    (out, all, panicked)
}

pub fn impl_json(o: &ImplOut) -> serde_json::Value {
    let run = match &o.run {
        Outcome::Ok((ds, exit)) => json!({"exit": exit, "diagnostics": ds.iter().map(|d| json!({
            "file": d.file, "range": [d.sl, d.sc, d.el, d.ec], "code": d.code, "severity": d.sev, "data": d.data, "message": d.message})).collect::<Vec<_>>()}),
        Outcome::Err(c, m) => json!({"error_class": c, "error": m}),
        Outcome::Panic(m) => json!({"panic": m}),
    };
    let list = match &o.list {
        Outcome::Ok(bs) => json!(bs.iter().map(|b| json!({"file": b.file, "name": b.name, "line": b.line, "column": b.col,
            "is_content_modified": b.modified, "attributes": b.attrs})).collect::<Vec<_>>()),
        Outcome::Err(c, m) => json!({"error_class": c, "error": m}),
        Outcome::Panic(m) => json!({"panic": m}),
    };
    json!({"run": run, "list": list})
}

pub fn spec_json(s: &RunSpec) -> serde_json::Value {
    json!({
        "files": s.files.iter().map(|(p, t)| json!({"path": p, "text": t})).collect::<Vec<_>>(),
        "diff": s.diff, "globs": s.globs, "ignores": s.ignores, "ext": s.ext,
        "disabled": s.disabled, "enabled": s.enabled,
    })
}

pub fn content_of<'a>(r: &'a Rendered, i: usize) -> &'a str {
    let b = &r.blocks[i];
    if b.chi >= b.clo { &r.text[b.clo..b.chi] } else { "" }
}

pub fn sev_num(s: &str) -> u32 {
    match s.to_ascii_lowercase().as_str() {
        "warning" => 2,
        "info" => 3,
        "hint" => 4,
        _ => 1,
    }
}

pub static SEVERITIES: &[&str] = &["error", "warning", "info", "hint", "ERROR", "Warning", "INFO", "hInT"];

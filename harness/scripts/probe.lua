-- Enumerates, from inside the script, everything reachable from the global
-- environment: table entries (raw), metatables of every value (incl. the
-- string metatable). One line per node and per edge; returned as the
-- diagnostic message.
--   N <id> <kind> <path>        kind: table | cfunction | lfunction | other:<type>
--   E <from id> <key> <to id>
local function validate_impl()
  local ids, order, out = {}, {}, {}
  local n = 0
  local function kind_of(v)
    local t = type(v)
    if t == "table" then return "table" end
    if t == "function" then
      local ok = pcall(string.dump, v)
      if ok then return "lfunction" else return "cfunction" end
    end
    return "other:" .. t
  end
  local queue = {}
  local function visit(v, path)
    local t = type(v)
    if t ~= "table" and t ~= "function" and t ~= "userdata" and t ~= "thread" then return nil end
    if ids[v] then return ids[v] end
    n = n + 1
    ids[v] = n
    out[#out + 1] = "N " .. n .. " " .. kind_of(v) .. " " .. path
    queue[#queue + 1] = { v, path, n }
    return n
  end
  visit(_G, "_G")
  -- values that are not tables still have metatables worth following
  local probes = { { "", "<string>" }, { 0, "<number>" }, { true, "<boolean>" }, { print, "<function>" }, { nil, "<nil>" } }
  for _, p in ipairs(probes) do
    local mt = getmetatable(p[1])
    if type(mt) == "table" then
      local id = visit(mt, "meta" .. p[2])
      if id then out[#out + 1] = "E 0 meta" .. p[2] .. " " .. id end
    end
  end
  local qi = 1
  while qi <= #queue do
    local v, path, id = queue[qi][1], queue[qi][2], queue[qi][3]
    qi = qi + 1
    if type(v) == "table" then
      local keys = {}
      for k, _ in next, v do keys[#keys + 1] = k end
      table.sort(keys, function(a, b) return tostring(a) < tostring(b) end)
      for _, k in ipairs(keys) do
        local child = rawget(v, k)
        local ks = tostring(k)
        if type(k) ~= "string" then ks = "[" .. type(k) .. "]" end
        local cp = (path == "_G") and ks or (path .. "." .. ks)
        local cid = visit(child, cp)
        if cid then out[#out + 1] = "E " .. id .. " " .. ks .. " " .. cid end
        -- keys can be reachable values too
        local kid = visit(k, cp .. "<key>")
        if kid then out[#out + 1] = "E " .. id .. " <key> " .. kid end
      end
    end
    local mt = getmetatable(v)
    if type(mt) == "table" then
      local mid = visit(mt, path .. "<meta>")
      if mid then out[#out + 1] = "E " .. id .. " <meta> " .. mid end
    elseif mt ~= nil then
      out[#out + 1] = "N 0 other:protected-metatable " .. path .. "<meta>"
    end
  end
  return table.concat(out, "\n")
end

-- the environment as the script's top-level chunk sees it (before blockwatch
-- fetches `validate`): a capability captured here stays usable later
local TOP_OK, TOP = pcall(validate_impl)

function validate(ctx, content)
  local ok, res = pcall(validate_impl)
  if not ok then return "PROBE-ERROR " .. tostring(res) end
  if not TOP_OK then return "PROBE-ERROR top-level " .. tostring(TOP) end
  return "PHASE top\n" .. TOP .. "\nPHASE call\n" .. res
end

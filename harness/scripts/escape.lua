-- Battery of concrete escape attempts; each line "name=outcome" where outcome
-- is "ok" (the attempt had the dangerous effect / the facility is usable) or
-- "blocked". The side file path is passed as the block's content.
local function attempt(name, f)
  local ok, res = pcall(f)
  if ok and res then return name .. "=ok" else return name .. "=blocked" end
end
-- captured by the top-level chunk, before `validate` is fetched and called
local t_dofile, t_loadfile, t_io, t_os, t_require, t_package, t_debug = dofile, loadfile, io, os, require, package, debug
function validate(ctx, content)
  local side = content
  local r = {}
  r[#r + 1] = attempt("io.open", function() local f = io.open(side, "r"); return f ~= nil end)
  r[#r + 1] = attempt("io.lines", function() for _ in io.lines(side) do return true end end)
  r[#r + 1] = attempt("os.execute", function() return os.execute("true") end)
  r[#r + 1] = attempt("os.getenv", function() return os.getenv("PATH") ~= nil end)
  r[#r + 1] = attempt("os.remove", function() return type(os.remove) == "function" end)
  r[#r + 1] = attempt("io.popen", function() local p = io.popen("true"); local ok = p ~= nil; if p then p:close() end; return ok end)
  r[#r + 1] = attempt("require-os", function() return require("os") ~= nil end)
  r[#r + 1] = attempt("require-io", function() return require("io") ~= nil end)
  r[#r + 1] = attempt("dofile", function() return dofile(side) == 42 end)
  r[#r + 1] = attempt("loadfile", function() local f = loadfile(side); return f ~= nil and f() == 42 end)
  -- really call it: a stub that raises an error counts as blocked
  r[#r + 1] = attempt("package.loadlib", function() local f, err = package.loadlib("/nonexistent/libx.so", "*"); return f ~= nil or err ~= nil end)
  r[#r + 1] = attempt("package.searchpath", function() return type(package.searchpath) == "function" end)
  r[#r + 1] = attempt("debug.getinfo", function() return debug.getinfo(1) ~= nil end)
  r[#r + 1] = attempt("debug.getregistry", function() return debug.getregistry() ~= nil end)
  r[#r + 1] = attempt("load-os", function() local f = load("return os"); return f ~= nil and f() ~= nil end)
  r[#r + 1] = attempt("load-io", function() local f = load("return io.open"); return f ~= nil and f() ~= nil end)
  r[#r + 1] = attempt("string-meta-escape", function() local m = getmetatable(""); return m ~= nil and (m.__index.open ~= nil or m.__index.execute ~= nil) end)
  r[#r + 1] = attempt("_G.io", function() return rawget(_G, "io") ~= nil end)
  r[#r + 1] = attempt("_G.os", function() return rawget(_G, "os") ~= nil end)
  r[#r + 1] = attempt("_G.package", function() return rawget(_G, "package") ~= nil end)
  r[#r + 1] = attempt("_G.debug", function() return rawget(_G, "debug") ~= nil end)
  r[#r + 1] = attempt("_G.require", function() return rawget(_G, "require") ~= nil end)
  r[#r + 1] = attempt("coroutine", function() return coroutine.wrap(function() return true end)() end)
  r[#r + 1] = attempt("string.rep", function() return ("ab"):rep(2) == "abab" end)
  r[#r + 1] = attempt("math", function() return math.max(1, 2) == 2 end)
  r[#r + 1] = attempt("utf8", function() return utf8.char(233) ~= nil end)
  r[#r + 1] = attempt("table", function() return table.concat({ "a", "b" }) == "ab" end)
  r[#r + 1] = attempt("top.dofile", function() return t_dofile(side) == 42 end)
  r[#r + 1] = attempt("top.loadfile", function() local f = t_loadfile(side); return f ~= nil and f() == 42 end)
  r[#r + 1] = attempt("top.io.open", function() local f = t_io.open(side, "r"); return f ~= nil end)
  r[#r + 1] = attempt("top.os.execute", function() return t_os.execute("true") end)
  r[#r + 1] = attempt("top.require-os", function() return t_require("os") ~= nil end)
  r[#r + 1] = attempt("top._G.package", function() return t_package ~= nil end)
  r[#r + 1] = attempt("top._G.debug", function() return t_debug ~= nil end)
  return table.concat(r, ";")
end

-- returns the content argument verbatim: the observation point for block content
function validate(ctx, content)
  return content
end
